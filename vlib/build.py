"""Build layer: compiles a snapshot of /repo/src (current working tree) plus the
harness sources into a content-addressed scratch cache.  Nothing in the cache is
needed: a missing cache is rebuilt."""
import fcntl
import hashlib
import os
import shutil
import subprocess
import sys
import time
from concurrent.futures import ThreadPoolExecutor

VERIF = os.path.dirname(os.path.dirname(os.path.abspath(__file__)))
REPO = os.environ.get("VERIF_REPO", "/repo")
HARNESS = os.path.join(VERIF, "harness")
CACHE_ROOT = os.path.join(os.environ.get("TMPDIR", "/tmp"), "echse-verif-cache")
GUARD = "ECHSE_VERIF"

LIBSRC = ("instant range dt-strpf module hash intern state task strlst bufpool "
          "event evstrm evical evrrul evmrul evfilt tzob scale shift tzraw bitint "
          "echse-genuid").split()

CPP = ["-DHAVE_CONFIG_H", "-D_POSIX_C_SOURCE=200809L", "-D_XOPEN_SOURCE=700",
       "-D_DEFAULT_SOURCE", "-D" + GUARD]
WARN = ["-w"]
FLAVOURS = {
    "asan": ["-std=gnu11", "-O1", "-g", "-fno-omit-frame-pointer",
             "-fsanitize=address,undefined", "-fno-sanitize-recover=all",
             "-fno-sanitize=shift-base,signed-integer-overflow"],
    "plain": ["-std=gnu11", "-O2", "-g"],
}
LIBEV = "/usr/lib/x86_64-linux-gnu/libev.a"
LDLIBS = ["-lm", "-lltdl", "-ldl"]

# harness programs: name -> (sources in harness/, extra cflags, needs libev, includes-from-src)
HARNESSES = {
    "h_lib": (["h_lib.c"], [], False),
    "h_strm": (["h_strm.c"], [], False),
    "h_echsd": (["h_echsd.c", "h_echsd_shim.c"], [], True),
    "h_echsx": (["h_echsx_shim.c"], [], True),
}
# stand-alone helpers without sanitizers (they are not under test)
HELPERS = ["h_sendmail", "h_job"]
# real binaries: name -> (repo sources, extra cppflags, needs libev, shim sources)
BINARIES = {
    "echse": (["echse.c", "version.c"], ["-DSTANDALONE", "-DHAVE_VERSION_H"], False),
    "echsq": (["echsq.c", "version.c"], ["-DSTANDALONE", "-DHAVE_VERSION_H"], False),
    "echsx": (["echsx.c", "version.c", "logger.c"], ["-DHAVE_VERSION_H"], True),
    "echsd": (["echsd.c", "logger.c"], [], True),
}


class BuildError(Exception):
    pass


def _src_files():
    d = os.path.join(REPO, "src")
    out = []
    for f in sorted(os.listdir(d)):
        if f.endswith((".c", ".h", ".erf", ".yuck")) and not f.endswith("-gp.c"):
            out.append(os.path.join(d, f))
    return out


def _harness_files():
    out = []
    for f in sorted(os.listdir(HARNESS)):
        p = os.path.join(HARNESS, f)
        if os.path.isfile(p):
            out.append(p)
    return out


def tree_hash():
    h = hashlib.sha256()
    for p in _src_files() + _harness_files():
        h.update(p.encode())
        with open(p, "rb") as f:
            h.update(hashlib.sha256(f.read()).digest())
    h.update(repr(sorted(FLAVOURS.items())).encode())
    h.update(repr(CPP).encode())
    return h.hexdigest()[:20]


def _run(cmd, cwd=None, what=""):
    r = subprocess.run(cmd, cwd=cwd, stdout=subprocess.PIPE, stderr=subprocess.STDOUT)
    if r.returncode != 0:
        raise BuildError("%s failed: %s\n%s" % (what or cmd[0], " ".join(cmd),
                                               r.stdout.decode(errors="replace")[-4000:]))
    return r.stdout


def _prepare_sources(dst):
    os.makedirs(dst, exist_ok=True)
    srcd = os.path.join(REPO, "src")
    for p in _src_files():
        shutil.copy(p, dst)
    # config.h is produced by configure; fall back to the pinned copy
    if not os.path.exists(os.path.join(dst, "config.h")):
        shutil.copy(os.path.join(HARNESS, "config.h.fallback"), os.path.join(dst, "config.h"))
    # gperf tables from the .erf files of the working tree
    for f in os.listdir(dst):
        if f.endswith(".erf"):
            out = f[:-4] + ".c"
            if shutil.which("gperf"):
                _run(["gperf", "-L", "ANSI-C", f, "--output-file", out], cwd=dst, what="gperf")
            elif os.path.exists(os.path.join(srcd, out)):
                shutil.copy(os.path.join(srcd, out), dst)
            else:
                raise BuildError("no gperf and no generated " + out)
    # yuck command line parsers
    yuck = os.path.join(REPO, "build-aux", "yuck")
    for f in os.listdir(dst):
        if f.endswith(".yuck"):
            out = f[:-5] + ".yucc"
            done = False
            if os.access(yuck, os.X_OK):
                env = dict(os.environ)
                env["PATH"] = os.path.join(REPO, "build-aux") + ":" + env.get("PATH", "")
                r = subprocess.run([yuck, "gen", "-o", out, f], cwd=dst, env=env,
                                   stdout=subprocess.PIPE, stderr=subprocess.STDOUT)
                done = r.returncode == 0 and os.path.exists(os.path.join(dst, out))
            if not done and os.path.exists(os.path.join(srcd, out)):
                shutil.copy(os.path.join(srcd, out), dst)
                done = True
            if not done:
                fb = os.path.join(HARNESS, out + ".fallback")
                if os.path.exists(fb):
                    shutil.copy(fb, os.path.join(dst, out))
                    done = True
            if not done:
                raise BuildError("cannot produce " + out)
    if not os.path.exists(os.path.join(dst, "version.c")):
        shutil.copy(os.path.join(HARNESS, "version.c.fallback"), os.path.join(dst, "version.c"))


def _compile_flavour(root, flav):
    src = os.path.join(root, "src")
    obj = os.path.join(root, flav)
    os.makedirs(obj, exist_ok=True)
    cflags = FLAVOURS[flav] + CPP + WARN + ["-I", src, "-I", HARNESS]
    jobs = []

    def cc(srcfile, out, extra=()):
        return ["gcc"] + cflags + list(extra) + ["-c", srcfile, "-o", out]

    for s in LIBSRC:
        jobs.append(cc(os.path.join(src, s + ".c"), os.path.join(obj, "lib_" + s + ".o")))
    for name, (srcs, extra, _ev) in BINARIES.items():
        for s in srcs:
            jobs.append(cc(os.path.join(src, s), os.path.join(obj, "bin_%s_%s.o" % (name, s[:-2])), extra))
    for name, (srcs, extra, _ev) in HARNESSES.items():
        for s in srcs:
            p = os.path.join(HARNESS, s)
            if os.path.exists(p):
                jobs.append(cc(p, os.path.join(obj, "h_%s.o" % s[:-2]), extra))
    for s in sorted(os.listdir(HARNESS)):
        if s.startswith("shim_") and s.endswith(".c"):
            jobs.append(["gcc", "-O1", "-g", "-fPIC", "-shared", "-w", os.path.join(HARNESS, s),
                         "-o", os.path.join(obj, s[:-2] + ".so"), "-ldl"])
    with ThreadPoolExecutor(16) as ex:
        list(ex.map(lambda c: _run(c, what="compile"), jobs))
    lib = os.path.join(obj, "libechse.a")
    _run(["ar", "rcs", lib] + [os.path.join(obj, "lib_" + s + ".o") for s in LIBSRC], what="ar")
    san = [f for f in FLAVOURS[flav] if f.startswith("-fsanitize=")]
    links = []
    for name, (srcs, extra, ev) in BINARIES.items():
        objs = [os.path.join(obj, "bin_%s_%s.o" % (name, s[:-2])) for s in srcs]
        links.append(["gcc"] + san + ["-rdynamic", "-o", os.path.join(obj, name)] + objs + [lib]
                     + ([LIBEV] if ev else []) + LDLIBS)
    for name, (srcs, extra, ev) in HARNESSES.items():
        objs = [os.path.join(obj, "h_%s.o" % s[:-2]) for s in srcs]
        if not all(os.path.exists(o) for o in objs):
            continue
        if name == "h_echsd":
            objs.append(os.path.join(obj, "bin_echsd_logger.o"))
        if name == "h_echsx":
            objs += [os.path.join(obj, "bin_echsx_%s.o" % s[:-2]) for s in BINARIES["echsx"][0]]
        links.append(["gcc"] + san + ["-rdynamic", "-o", os.path.join(obj, name)] + objs + [lib]
                     + ([LIBEV] if ev else []) + LDLIBS)
    for h in HELPERS:
        p = os.path.join(HARNESS, h + ".c")
        if os.path.exists(p):
            links.append(["gcc", "-O1", "-g", "-w", "-o", os.path.join(obj, h), p])
    with ThreadPoolExecutor(16) as ex:
        list(ex.map(lambda c: _run(c, what="link"), links))


def _gc(keep):
    try:
        ents = [e for e in os.listdir(CACHE_ROOT) if os.path.isdir(os.path.join(CACHE_ROOT, e))]
    except OSError:
        return
    ents = [e for e in ents if e != keep]
    ents.sort(key=lambda e: os.path.getmtime(os.path.join(CACHE_ROOT, e)), reverse=True)
    # a build may be in use by a check that started hours ago (every start touches its directory): only builds
    # that nobody has asked for in a long while go, or the oldest ones when there are really many (30 MB each)
    now = time.time()
    for i, e in enumerate(ents):
        age = now - os.path.getmtime(os.path.join(CACHE_ROOT, e))
        if age > 6 * 3600 or i >= 16:
            shutil.rmtree(os.path.join(CACHE_ROOT, e), ignore_errors=True)


def ensure(flavours=("asan", "plain")):
    """Return the cache directory holding an up-to-date build of /repo's working tree."""
    os.makedirs(CACHE_ROOT, exist_ok=True)
    h = tree_hash()
    root = os.path.join(CACHE_ROOT, h)
    lock = open(os.path.join(CACHE_ROOT, ".lock"), "w")
    fcntl.flock(lock, fcntl.LOCK_EX)
    try:
        stamp = os.path.join(root, ".done")
        if not os.path.exists(stamp):
            shutil.rmtree(root, ignore_errors=True)
            t0 = time.time()
            _prepare_sources(os.path.join(root, "src"))
            with ThreadPoolExecutor(2) as ex:
                list(ex.map(lambda f: _compile_flavour(root, f), FLAVOURS.keys()))
            with open(stamp, "w") as f:
                f.write("%.1f\n" % (time.time() - t0))
        os.utime(root, None)
        _gc(h)
    finally:
        fcntl.flock(lock, fcntl.LOCK_UN)
        lock.close()
    return root


def exe(root, flav, name):
    return os.path.join(root, flav, name)


if __name__ == "__main__":
    try:
        r = ensure()
    except BuildError as e:
        sys.stderr.write(str(e) + "\n")
        sys.exit(2)
    print(r)

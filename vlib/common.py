"""Shared driver code: harness process wrappers, run bookkeeping (verdicts, known
findings, replay files, evidence), parallel map."""
import fnmatch
import hashlib
import json
import multiprocessing
import os
import random
import re
import select
import signal
import subprocess
import sys
import tempfile
import time

from . import build

VERIF = build.VERIF
EVID = os.environ.get("VERIF_EVID_DIR") or os.path.join(VERIF, "evidence")
REPLAY = (os.path.join(os.environ["VERIF_EVID_DIR"], "replay") if os.environ.get("VERIF_EVID_DIR")
          else os.path.join(VERIF, "replay"))
KNOWN = os.path.join(VERIF, "known_findings.txt")
NCPU = min(16, os.cpu_count() or 4)
T_START = time.time()

SAN_ENV = {
    "ASAN_OPTIONS": "abort_on_error=0:exitcode=77:detect_leaks=0:allocator_may_return_null=1:"
                    "handle_abort=1:print_legend=0:detect_stack_use_after_return=0",
    "UBSAN_OPTIONS": "print_stacktrace=1:halt_on_error=0",
    "TZ": "UTC",
}


def seed_from_env():
    try:
        return int(os.environ.get("VERIF_SEED", "1"))
    except ValueError:
        return 1


def rng_for(seed, prop, worker):
    return random.Random("%s:%s:%s" % (seed, prop, worker))


# ---------------------------------------------------------------------------
# instants

def I(y, m, d, H=0xff, M=0xff, S=0x3f, ms=0x3ff):
    """pack an echs_instant_t (little endian bitfield layout)"""
    return ms | (S << 10) | (M << 16) | (H << 24) | (d << 32) | (m << 40) | (y << 48)


def unI(u):
    return ((u >> 48) & 0xffff, (u >> 40) & 0xff, (u >> 32) & 0xff, (u >> 24) & 0xff,
            (u >> 16) & 0xff, (u >> 10) & 0x3f, u & 0x3ff)


def fmtI(u):
    y, m, d, H, M, S, ms = unI(u)
    if H == 0xff:
        return "%04d-%02d-%02d" % (y, m, d)
    s = "%04d-%02d-%02dT%02d:%02d:%02d" % (y, m, d, H, M, S)
    if ms != 0x3ff:
        s += ".%03d" % ms
    return s


# ---------------------------------------------------------------------------
# harness processes

class HarnessCrash(Exception):
    def __init__(self, kind, detail, partial):
        Exception.__init__(self, kind)
        self.kind = kind          # 'sanitizer' | 'timeout' | 'signal' | 'exit'
        self.detail = detail
        self.partial = partial


_SAN_RE = re.compile(r"(ERROR: AddressSanitizer: [^\n]*|runtime error: [^\n]*|"
                     r"ERROR: UndefinedBehaviorSanitizer[^\n]*|AddressSanitizer:DEADLYSIGNAL)")


def san_summary(text):
    """first sanitizer headline + top frames inside echse code, for keys and messages"""
    m = _SAN_RE.search(text)
    head = m.group(1) if m else ""
    frames = re.findall(r"#\d+ 0x[0-9a-f]+ in (\S+) (\S+)", text)
    fr = []
    for fn, loc in frames:
        if "/src/" in loc or "harness" in loc:
            fr.append(fn)
        if len(fr) >= 3:
            break
    return head, fr


def ub_diagnostics(text):
    """recoverable UBSan reports (shift-base, signed overflow): diagnostics only"""
    return re.findall(r"runtime error: ([^\n]*)", text)


class Proc:
    """a harness server process; restarted on demand after a crash"""

    def __init__(self, exe, env=None, wall_timeout=120.0):
        self.exe = exe
        self.env = dict(os.environ)
        self.env.update(SAN_ENV)
        if env:
            self.env.update(env)
        self.wall = wall_timeout
        self.p = None
        self.errf = None
        self.buf = b""
        self.restarts = 0
        self.ub = 0

    def start(self):
        self.errf = tempfile.TemporaryFile()
        self.p = subprocess.Popen([self.exe], stdin=subprocess.PIPE, stdout=subprocess.PIPE,
                                  stderr=self.errf, env=self.env, bufsize=0)
        self.buf = b""

    def stderr_text(self):
        if self.errf is None:
            return ""
        self.errf.seek(0)
        return self.errf.read().decode(errors="replace")

    def kill(self):
        if self.p is not None:
            try:
                self.p.kill()
            except OSError:
                pass
            try:
                self.p.wait(timeout=5)
            except Exception:
                pass
            for f in (self.p.stdin, self.p.stdout):
                try:
                    f.close()
                except Exception:
                    pass
        self.p = None
        if self.errf is not None:
            self.errf.close()
            self.errf = None

    close = kill

    def _write(self, data):
        if self.p is None:
            self.start()
        try:
            off = 0
            fd = self.p.stdin.fileno()
            while off < len(data):
                off += os.write(fd, data[off:off + 65536])
        except (BrokenPipeError, OSError):
            pass

    def _readline(self, deadline):
        while True:
            i = self.buf.find(b"\n")
            if i >= 0:
                line, self.buf = self.buf[:i], self.buf[i + 1:]
                return line
            left = deadline - time.time()
            if left <= 0:
                return None
            r, _, _ = select.select([self.p.stdout], [], [], min(left, 5.0))
            if not r:
                continue
            chunk = os.read(self.p.stdout.fileno(), 1 << 16)
            if not chunk:
                return b"" if not self.buf else self._flush_tail()
            self.buf += chunk

    def _flush_tail(self):
        line, self.buf = self.buf, b""
        return line + b"\x00EOF"

    def _crash(self, partial, why):
        rc = None
        try:
            rc = self.p.wait(timeout=10)
        except Exception:
            pass
        err = self.stderr_text()
        self.kill()
        self.restarts += 1
        if why == "timeout":
            raise HarnessCrash("timeout", "wall clock watchdog", partial)
        def _b(x):
            return x if isinstance(x, bytes) else str(x).encode("utf-8", "replace")
        if any(b"TIMEOUT" in _b(l) for l in partial[-2:]) or rc == 3:
            raise HarnessCrash("timeout", "cpu budget exhausted", partial)
        head, frames = san_summary(err)
        if head:
            raise HarnessCrash("sanitizer", head + " @ " + ">".join(frames) + "\n" + err[-6000:], partial)
        if rc is not None and rc < 0:
            raise HarnessCrash("signal", "signal %d\n%s" % (-rc, err[-2000:]), partial)
        raise HarnessCrash("exit", "exit %s\n%s" % (rc, err[-2000:]), partial)


class CaseServer(Proc):
    """h_strm / h_echsd protocol: CASE <id> <len>\\n<payload> -> lines ... END <id> <st>"""

    def __init__(self, exe, env=None, wall_timeout=180.0):
        Proc.__init__(self, exe, env, wall_timeout)
        self.n = 0

    def case(self, opts, body):
        if isinstance(body, str):
            body = body.encode("utf-8", "surrogateescape")
        self.n += 1
        cid = "c%d" % self.n
        payload = opts.encode() + b"\n" + body
        if self.p is None:
            self.start()
        self._write(b"CASE %s %d\n" % (cid.encode(), len(payload)) + payload)
        deadline = time.time() + self.wall
        lines = []
        endtag = b"END " + cid.encode()
        while True:
            l = self._readline(deadline)
            if l is None:
                self._crash(lines, "timeout")
            if l == b"" or l.endswith(b"\x00EOF"):
                if l:
                    lines.append(l[:-4])
                self._crash(lines, "eof")
            if l.startswith(endtag):
                # recoverable UBSan diagnostics are counted, not judged
                return [x.decode("utf-8", "surrogateescape") for x in lines]
            lines.append(l)


class LineServer(Proc):
    """h_lib protocol: one command line -> one answer line"""

    def batch(self, cmds):
        """send all commands, return answers; raises HarnessCrash on crash/timeout"""
        if not cmds:
            return []
        if self.p is None:
            self.start()
        data = ("\n".join(cmds) + "\nflush\n").encode("utf-8", "surrogateescape")
        want = len(cmds) + 1
        res = []
        ifd, ofd = self.p.stdin.fileno(), self.p.stdout.fileno()
        os.set_blocking(ifd, False)
        off = 0
        deadline = time.time() + self.wall
        try:
            while len(res) < want:
                if time.time() > deadline:
                    self._crash([cmds[min(len(res), len(cmds) - 1)]], "timeout")
                wl = [ifd] if off < len(data) else []
                r, w, _ = select.select([ofd], wl, [], 5.0)
                if w:
                    try:
                        off += os.write(ifd, data[off:off + 65536])
                    except BlockingIOError:
                        pass
                    except (BrokenPipeError, OSError):
                        off = len(data)
                if r:
                    chunk = os.read(ofd, 1 << 18)
                    if not chunk:
                        self._crash([cmds[min(len(res), len(cmds) - 1)]], "eof")
                    self.buf += chunk
                    while True:
                        i = self.buf.find(b"\n")
                        if i < 0:
                            break
                        res.append(self.buf[:i].decode("utf-8", "replace"))
                        self.buf = self.buf[i + 1:]
        finally:
            if self.p is not None:
                try:
                    os.set_blocking(ifd, True)
                except OSError:
                    pass
        res.pop()  # the flush ack
        return res


def unesc(s):
    return re.sub(r"%([0-9a-f]{2})", lambda m: chr(int(m.group(1), 16)), s)


def unesc_b(s):
    return re.sub(rb"%([0-9a-f]{2})", lambda m: bytes([int(m.group(1), 16)]), s.encode("latin1"))


# ---------------------------------------------------------------------------
# known findings

def load_known():
    opens, fixed = [], []
    if not os.path.exists(KNOWN):
        return opens, fixed
    for raw in open(KNOWN):
        l = raw.strip()
        if not l or l.startswith("#"):
            continue
        m = re.match(r"open:\s+property=(\S+)\s+key=(\S+)\s+(.*)$", l)
        if m:
            opens.append({"property": m.group(1), "key": m.group(2), "what": m.group(3)})
            continue
        if l.startswith("fixed:"):
            fixed.append(l)
    return opens, fixed


# ---------------------------------------------------------------------------
# a run of one check

class Run:
    def __init__(self, prop, tier, level="exploration"):
        self.prop = prop
        self.tier = tier
        self.level = level
        self.seed = seed_from_env()
        self.t0 = T_START
        self.cov = {"evaluations": 0, "distinct_nontrivial": 0, "rule": "", "samples": []}
        self.assumptions = []
        self.viol = {}           # key -> first witness dict
        self.viol_count = {}     # key -> count
        self.inconclusive = []
        self.fatal = None
        self.opens, self.fixed = load_known()
        self.nontrivial = set()
        self.counters = {}

    # -- observation bookkeeping
    def count(self, name, n=1):
        self.counters[name] = self.counters.get(name, 0) + n

    def note_nontrivial(self, sig):
        self.nontrivial.add(sig)

    def sample(self, s, cap=8):
        if len(self.cov["samples"]) < cap:
            self.cov["samples"].append(s)

    def violation(self, key, witness):
        """key: narrow classifier key; witness: json-able dict (input, observed, expected)"""
        self.viol_count[key] = self.viol_count.get(key, 0) + 1
        if key not in self.viol:
            self.viol[key] = witness

    def merge(self, part):
        """merge a worker's partial result (dict produced by Part.export())"""
        self.cov["evaluations"] += part["evaluations"]
        for s in part["nontrivial"]:
            self.nontrivial.add(s)
        for k, v in part["counters"].items():
            self.counters[k] = self.counters.get(k, 0) + v
        for s in part["samples"]:
            self.sample(s)
        for k, (n, w) in part["viol"].items():
            self.viol_count[k] = self.viol_count.get(k, 0) + n
            if k not in self.viol:
                self.viol[k] = w
        self.inconclusive.extend(part["inconclusive"])
        if part.get("fatal") and not self.fatal:
            self.fatal = part["fatal"]

    # -- the end
    def finish(self, min_eval=1, min_nontrivial=2):
        os.makedirs(EVID, exist_ok=True)
        os.makedirs(REPLAY, exist_ok=True)
        known_hit, unlisted = [], []
        for key in sorted(self.viol):
            ent = None
            for o in self.opens:
                if o["property"] == self.prop and (o["key"] == key or fnmatch.fnmatchcase(key, o["key"])):
                    ent = o
                    break
            if ent is not None:
                known_hit.append((key, ent))
            else:
                unlisted.append(key)
        seen_ent = {}
        for key, ent in known_hit:
            k = ent["key"]
            seen_ent.setdefault(k, [ent, 0, key])
            seen_ent[k][1] += self.viol_count[key]
        for k, (ent, n, first) in sorted(seen_ent.items()):
            print("KNOWN-FINDING: property=%s key=%s %s (seen %d times in this run, e.g. %s)"
                  % (self.prop, k, ent["what"], n, first))
        rc = 0
        for key in unlisted:
            h = hashlib.sha1(key.encode()).hexdigest()[:10]
            path = os.path.join(REPLAY, "%s_%s.json" % (self.prop, h))
            w = dict(self.viol[key])
            w.update({"property": self.prop, "key": key, "seed": self.seed, "tier": self.tier,
                      "count_in_run": self.viol_count[key],
                      "how_to_run": "./check %s --replay %s" % (self.prop, path)})
            with open(path, "w") as f:
                json.dump(w, f, indent=1, default=str)
            print("VIOLATION property=%s replay=%s" % (self.prop, path))
            print("  key=%s  %s" % (key, str(w.get("summary", ""))[:300]))
            rc = 1
        self.cov["distinct_nontrivial"] = len(self.nontrivial)
        cov = dict(self.cov)
        cov.update(self.counters)
        cov["inconclusive"] = len(self.inconclusive)
        if self.inconclusive:
            cov["inconclusive_samples"] = self.inconclusive[:5]
        cov["known_findings_seen"] = [k for k, _ in known_hit]
        ev = {"property_id": self.prop, "tier": self.tier, "seed": self.seed, "level": self.level,
              "coverage": cov, "assumptions": self.assumptions,
              "wall_s": round(time.time() - self.t0, 2), "violations": len(unlisted)}
        with open(os.path.join(EVID, self.prop + ".json"), "w") as f:
            json.dump(ev, f, indent=1, default=str)
        if self.fatal:
            print("HARNESS-FAILURE property=%s %s" % (self.prop, self.fatal))
            return 2
        if rc == 0 and (self.cov["evaluations"] < min_eval or len(self.nontrivial) < min_nontrivial):
            print("HARNESS-FAILURE property=%s observed too little: evaluations=%d nontrivial=%d"
                  % (self.prop, self.cov["evaluations"], len(self.nontrivial)))
            return 2
        print("%s %s: evaluations=%d distinct_nontrivial=%d known=%d violations=%d inconclusive=%d wall=%.1fs"
              % (self.prop, self.tier, self.cov["evaluations"], len(self.nontrivial), len(known_hit),
                 len(unlisted), len(self.inconclusive), time.time() - self.t0))
        return rc


class Part:
    """per-worker accumulator, picklable via export()"""

    def __init__(self):
        self.evaluations = 0
        self.nontrivial = set()
        self.counters = {}
        self.samples = []
        self.viol = {}
        self.inconclusive = []
        self.fatal = None

    def count(self, name, n=1):
        self.counters[name] = self.counters.get(name, 0) + n

    def violation(self, key, witness):
        if key in self.viol:
            self.viol[key][0] += 1
        else:
            self.viol[key] = [1, witness]

    def sample(self, s, cap=3):
        if len(self.samples) < cap:
            self.samples.append(s)

    def export(self):
        return {"evaluations": self.evaluations, "nontrivial": list(self.nontrivial),
                "counters": self.counters, "samples": self.samples,
                "viol": {k: (v[0], v[1]) for k, v in self.viol.items()},
                "inconclusive": self.inconclusive[:20], "fatal": self.fatal}


def _wrap(args):
    fn, a = args
    signal.signal(signal.SIGINT, signal.SIG_IGN)
    try:
        import faulthandler
        faulthandler.register(signal.SIGUSR1, all_threads=True)
    except Exception:
        pass
    try:
        return fn(a)
    except Exception as e:  # a worker must never take the run down silently
        import traceback
        p = Part()
        p.fatal = "worker exception: %s\n%s" % (e, traceback.format_exc()[-1500:])
        return p.export()


def pmap(fn, arglist, procs=NCPU):
    """run fn(arg) -> Part.export() for each arg on a fork pool"""
    if len(arglist) <= 1 or procs <= 1:
        return [_wrap((fn, a)) for a in arglist]
    ctx = multiprocessing.get_context("fork")
    with ctx.Pool(min(procs, len(arglist))) as pool:
        return pool.map(_wrap, [(fn, a) for a in arglist], chunksize=1)


def build_or_die():
    try:
        return build.ensure()
    except build.BuildError as e:
        sys.stderr.write("BUILD FAILED\n%s\n" % e)
        print("HARNESS-FAILURE build failed")
        sys.exit(2)

"""Deliberately naive RFC 5545 section 3.3.10 recurrence expander (reference oracle).
Written from the RFC text, period by period; see DESIGN.md appendix A.

A rule is a dict:
  freq      'YEARLY'..'SECONDLY'
  interval  int >= 1
  count     int or None
  until     datetime/date or None
  bymonth, byweekno, byyearday, bymonthday, byhour, byminute, bysecond, bysetpos: lists of int (or absent)
  byday     list of (ordinal or 0, weekday 0=MO..6=SU)
DTSTART is a datetime.date (DATE value) or datetime.datetime (floating / UTC, no zone logic here)."""
import datetime as D

FREQS = ["YEARLY", "MONTHLY", "WEEKLY", "DAILY", "HOURLY", "MINUTELY", "SECONDLY"]
WD = ["MO", "TU", "WE", "TH", "FR", "SA", "SU"]
MAXDATE = D.date(2099, 12, 31)


def is_leap(y):
    return y % 4 == 0 and (y % 100 != 0 or y % 400 == 0)


def ndim(y, m):
    return [31, 29 if is_leap(y) else 28, 31, 30, 31, 30, 31, 31, 30, 31, 30, 31][m - 1]


def nweeks(y):
    return D.date(y, 12, 28).isocalendar()[1]


def rule_text(r):
    parts = ["FREQ=" + r["freq"]]
    if r.get("interval", 1) != 1:
        parts.append("INTERVAL=%d" % r["interval"])
    for k, name in (("bymonth", "BYMONTH"), ("byweekno", "BYWEEKNO"), ("byyearday", "BYYEARDAY"),
                    ("bymonthday", "BYMONTHDAY")):
        if r.get(k):
            parts.append(name + "=" + ",".join(map(str, r[k])))
    if r.get("byday"):
        parts.append("BYDAY=" + ",".join(("%d" % o if o else "") + WD[w] for o, w in r["byday"]))
    for k, name in (("byhour", "BYHOUR"), ("byminute", "BYMINUTE"), ("bysecond", "BYSECOND"), ("bysetpos", "BYSETPOS")):
        if r.get(k):
            parts.append(name + "=" + ",".join(map(str, r[k])))
    if r.get("count") is not None:
        parts.append("COUNT=%d" % r["count"])
    if r.get("until") is not None:
        u = r["until"]
        parts.append("UNTIL=" + (u.strftime("%Y%m%dT%H%M%SZ") if isinstance(u, D.datetime) else u.strftime("%Y%m%d")))
    return ";".join(parts)


def _day_ok(d, r, freq, dtstart, scope_month):
    """all present date-parts (and the RFC's defaults from DTSTART) hold for date d"""
    y, m, dom = d.year, d.month, d.day
    bymonth = r.get("bymonth")
    byweekno = r.get("byweekno")
    byyearday = r.get("byyearday")
    bymonthday = r.get("bymonthday")
    byday = r.get("byday")
    if bymonth and m not in bymonth:
        return False
    if byweekno:
        iy, iw, _ = d.isocalendar()
        nw = nweeks(iy)
        if not any((w == iw) if w > 0 else (nw + 1 + w == iw) for w in byweekno):
            return False
    if byyearday:
        yd = d.timetuple().tm_yday
        ny = 366 if is_leap(y) else 365
        if not any((v == yd) if v > 0 else (ny + 1 + v == yd) for v in byyearday):
            return False
    if bymonthday:
        n = ndim(y, m)
        if not any((v == dom) if v > 0 else (n + 1 + v == dom) for v in bymonthday):
            return False
    if byday:
        wd = d.weekday()
        ok = False
        for o, w in byday:
            if w != wd:
                continue
            if o == 0:
                ok = True
                break
            if scope_month:
                first = D.date(y, m, 1)
                n = ndim(y, m)
                k = (dom - 1) // 7 + 1                 # d is the k-th wd of the month
                kk = -((n - dom) // 7 + 1)             # and the kk-th from the end
            else:
                yd = d.timetuple().tm_yday
                ny = 366 if is_leap(y) else 365
                k = (yd - 1) // 7 + 1
                kk = -((ny - yd) // 7 + 1)
            if o == k or o == kk:
                ok = True
                break
        if not ok:
            return False
    # defaults: "information from DTSTART" where a level is left open
    if freq == "YEARLY":
        if not (bymonth or byweekno or byyearday or bymonthday or byday):
            if (m, dom) != (dtstart.month, dtstart.day):
                return False
        elif bymonth and not (byweekno or byyearday or bymonthday or byday):
            if dom != dtstart.day:
                return False
        elif byweekno and not (byday or byyearday or bymonthday):
            if d.weekday() != dtstart.weekday():
                return False
    elif freq == "MONTHLY":
        if not (bymonthday or byday):
            if dom != dtstart.day:
                return False
    elif freq == "WEEKLY":
        if not byday:
            if d.weekday() != dtstart.weekday():
                return False
    return True


class Expansion:
    """result of expand(): .items (sorted list), .exhausted (the set ended by COUNT/UNTIL or
    cannot continue), .complete_until (every member <= this is in .items)"""

    def __init__(self):
        self.items = []
        self.exhausted = False
        self.complete_until = None
        self.periods = 0


def expand(dtstart, r, want=100, horizon=None, max_periods=200000):
    freq = r["freq"]
    interval = r.get("interval", 1) or 1
    count = r.get("count")
    until = r.get("until")
    is_date = not isinstance(dtstart, D.datetime)
    res = Expansion()
    if horizon is None:
        horizon = MAXDATE
    hz = horizon if is_date else D.datetime.combine(horizon, D.time(23, 59, 59))
    byhour = sorted(set(r.get("byhour") or [])) if not is_date else []
    byminute = sorted(set(r.get("byminute") or [])) if not is_date else []
    bysecond = sorted(set(r.get("bysecond") or [])) if not is_date else []
    bysetpos = r.get("bysetpos")
    scope_month = (freq == "MONTHLY") or bool(r.get("bymonth"))
    out = res.items
    start_date = dtstart.date() if not is_date else dtstart

    def finish_period(cands, period_end):
        """apply BYSETPOS, DTSTART/UNTIL/COUNT; returns False when the set is finished"""
        cands = sorted(set(cands))
        if bysetpos:
            n = len(cands)
            sel = set()
            for p in bysetpos:
                i = p - 1 if p > 0 else n + p
                if 0 <= i < n:
                    sel.add(cands[i])
            cands = sorted(sel)
        for x in cands:
            if x < dtstart:
                continue
            if until is not None and x > until:
                res.exhausted = True
                return False
            out.append(x)
            if count is not None and len(out) >= count:
                res.exhausted = True
                return False
        return True

    k = 0
    if freq in ("YEARLY", "MONTHLY", "WEEKLY", "DAILY"):
        if is_date:
            times = None
        else:
            times = [D.time(h, mi, s) for h in (byhour or [dtstart.hour]) for mi in (byminute or [dtstart.minute])
                     for s in (bysecond or [dtstart.second]) if h < 24 and mi < 60 and s < 60]
        while True:
            res.periods += 1
            if res.periods > max_periods:
                break
            # the k-th period
            if freq == "YEARLY":
                y = start_date.year + k * interval
                if y > horizon.year:
                    break
                days = [D.date(y, 1, 1) + D.timedelta(days=i) for i in range(366 if is_leap(y) else 365)]
                pend = D.date(y, 12, 31)
            elif freq == "MONTHLY":
                mi = (start_date.year * 12 + start_date.month - 1) + k * interval
                y, m = divmod(mi, 12)
                m += 1
                if D.date(y, m, 1) > horizon:
                    break
                days = [D.date(y, m, i) for i in range(1, ndim(y, m) + 1)]
                pend = days[-1]
            elif freq == "WEEKLY":
                monday = start_date - D.timedelta(days=start_date.weekday()) + D.timedelta(days=7 * k * interval)
                if monday > horizon:
                    break
                days = [monday + D.timedelta(days=i) for i in range(7)]
                pend = days[-1]
            else:
                day = start_date + D.timedelta(days=k * interval)
                if day > horizon:
                    break
                days = [day]
                pend = day
            sel = [d for d in days if _day_ok(d, r, freq, start_date, scope_month)]
            if is_date:
                cands = sel
            else:
                cands = [D.datetime.combine(d, t) for d in sel for t in times]
            res.complete_until = pend if is_date else D.datetime.combine(pend, D.time(23, 59, 59))
            if not finish_period(cands, pend):
                res.complete_until = hz
                return res
            if len(out) >= want:
                # everything up to the end of this period is known
                return res
            k += 1
        res.complete_until = min(res.complete_until or dtstart, hz) if res.periods > max_periods else hz
        return res

    # sub-daily frequencies (DTSTART is a date-time)
    unit = {"HOURLY": 3600, "MINUTELY": 60, "SECONDLY": 1}[freq]
    if freq == "HOURLY":
        base = dtstart.replace(minute=0, second=0)
    elif freq == "MINUTELY":
        base = dtstart.replace(second=0)
    else:
        base = dtstart
    bymonth = r.get("bymonth")
    while True:
        res.periods += 1
        if res.periods > max_periods:
            res.complete_until = min(base + D.timedelta(seconds=unit * k * interval) - D.timedelta(seconds=1), hz)
            return res
        p = base + D.timedelta(seconds=unit * k * interval)
        if p > hz:
            break
        res.complete_until = p + D.timedelta(seconds=unit - 1)
        ok = _day_ok(p.date(), r, freq, start_date, bool(bymonth))
        if ok and byhour and p.hour not in byhour:
            ok = False
        cands = []
        if ok:
            if freq == "HOURLY":
                cands = [p.replace(minute=mi, second=s) for mi in (byminute or [dtstart.minute])
                         for s in (bysecond or [dtstart.second]) if mi < 60 and s < 60]
            elif freq == "MINUTELY":
                if not byminute or p.minute in byminute:
                    cands = [p.replace(second=s) for s in (bysecond or [dtstart.second]) if s < 60]
            else:
                if (not byminute or p.minute in byminute) and (not bysecond or p.second in bysecond):
                    cands = [p]
        if not finish_period(cands, p):
            res.complete_until = hz
            return res
        if len(out) >= want:
            return res
        k += 1
    res.complete_until = hz
    return res


# ---------------------------------------------------------------------------
# self test: RFC 5545 section 3.8.5.3 examples against direct enumeration of the English sentence

def _selftest():
    errs = []

    def chk(name, got, exp):
        if list(got) != list(exp):
            errs.append("%s: got %s expected %s" % (name, list(got)[:6], list(exp)[:6]))
    dt = D.datetime
    s = dt(1997, 9, 2, 9, 0, 0)
    # daily for 10 occurrences
    chk("daily10", expand(s, {"freq": "DAILY", "count": 10}).items, [s + D.timedelta(days=i) for i in range(10)])
    # every other day
    chk("everyotherday", expand(s, {"freq": "DAILY", "interval": 2}, want=20).items[:20],
        [s + D.timedelta(days=2 * i) for i in range(20)])
    # every other week on Tu/Th (RFC: WKST=SU there, result identical for MO) for 8 occurrences
    exp = [dt(1997, 9, 2, 9), dt(1997, 9, 4, 9), dt(1997, 9, 16, 9), dt(1997, 9, 18, 9), dt(1997, 9, 30, 9),
           dt(1997, 10, 2, 9), dt(1997, 10, 14, 9), dt(1997, 10, 16, 9)]
    chk("biweekly-tuth", expand(s, {"freq": "WEEKLY", "interval": 2, "count": 8, "byday": [(0, 1), (0, 3)]}).items, exp)
    # monthly on the first Friday for 10 occurrences
    s2 = dt(1997, 9, 5, 9)
    exp = []
    y, m = 1997, 9
    while len(exp) < 10:
        d = D.date(y, m, 1)
        while d.weekday() != 4:
            d += D.timedelta(days=1)
        exp.append(dt(d.year, d.month, d.day, 9))
        m += 1
        if m > 12:
            y, m = y + 1, 1
    chk("monthly-1FR", expand(s2, {"freq": "MONTHLY", "count": 10, "byday": [(1, 4)]}).items, exp)
    # every 18 months on the 10th thru 15th for 10 occurrences
    s3 = dt(1997, 9, 10, 9)
    exp = [dt(1997, 9, d, 9) for d in range(10, 16)] + [dt(1999, 3, d, 9) for d in range(10, 14)]
    chk("18months", expand(s3, {"freq": "MONTHLY", "interval": 18, "count": 10, "bymonthday": [10, 11, 12, 13, 14, 15]}).items, exp)
    # yearly in June and July for 10 occurrences
    s4 = dt(1997, 6, 10, 9)
    exp = [dt(y, m, 10, 9) for y in range(1997, 2002) for m in (6, 7)]
    chk("yearly-jun-jul", expand(s4, {"freq": "YEARLY", "count": 10, "bymonth": [6, 7]}).items, exp)
    # every 3rd year on the 1st, 100th and 200th day for 10 occurrences
    s5 = dt(1997, 1, 1, 9)
    exp = []
    for y in (1997, 2000, 2003, 2006):
        for yd in (1, 100, 200):
            d = D.date(y, 1, 1) + D.timedelta(days=yd - 1)
            exp.append(dt(d.year, d.month, d.day, 9))
    chk("yearday", expand(s5, {"freq": "YEARLY", "interval": 3, "count": 10, "byyearday": [1, 100, 200]}).items, exp[:10])
    # every 20th Monday of the year
    s6 = dt(1997, 5, 19, 9)
    exp = []
    for y in (1997, 1998, 1999):
        d = D.date(y, 1, 1)
        while d.weekday() != 0:
            d += D.timedelta(days=1)
        d += D.timedelta(days=7 * 19)
        exp.append(dt(d.year, d.month, d.day, 9))
    chk("20MO", expand(s6, {"freq": "YEARLY", "byday": [(20, 0)]}, want=3).items[:3], exp)
    # Monday of week number 20
    s7 = dt(1997, 5, 12, 9)
    exp = [dt(1997, 5, 12, 9), dt(1998, 5, 11, 9), dt(1999, 5, 17, 9)]
    chk("week20", expand(s7, {"freq": "YEARLY", "byweekno": [20], "byday": [(0, 0)]}, want=3).items[:3], exp)
    # every Friday the 13th
    s8 = dt(1997, 9, 2, 9)
    exp = []
    d = D.date(1997, 9, 2)
    while len(exp) < 5:
        if d.day == 13 and d.weekday() == 4:
            exp.append(dt(d.year, d.month, d.day, 9))
        d += D.timedelta(days=1)
    chk("fri13", expand(s8, {"freq": "MONTHLY", "byday": [(0, 4)], "bymonthday": [13]}, want=5).items[:5], exp)
    # first Saturday that follows the first Sunday of the month
    s9 = dt(1997, 9, 13, 9)
    exp = [dt(1997, 9, 13, 9), dt(1997, 10, 11, 9), dt(1997, 11, 8, 9), dt(1997, 12, 13, 9), dt(1998, 1, 10, 9)]
    chk("sat-after-sun", expand(s9, {"freq": "MONTHLY", "byday": [(0, 5)], "bymonthday": [7, 8, 9, 10, 11, 12, 13]}, want=5).items[:5], exp)
    # US presidential election day
    s10 = dt(1996, 11, 5, 9)
    exp = [dt(1996, 11, 5, 9), dt(2000, 11, 7, 9), dt(2004, 11, 2, 9)]
    chk("election", expand(s10, {"freq": "YEARLY", "interval": 4, "bymonth": [11], "byday": [(0, 1)],
                                 "bymonthday": [2, 3, 4, 5, 6, 7, 8]}, want=3).items[:3], exp)
    # third instance of Tu/We/Th in the month, 3 occurrences
    s11 = dt(1997, 9, 4, 9)
    exp = [dt(1997, 9, 4, 9), dt(1997, 10, 7, 9), dt(1997, 11, 6, 9)]
    chk("setpos3", expand(s11, {"freq": "MONTHLY", "count": 3, "byday": [(0, 1), (0, 2), (0, 3)], "bysetpos": [3]}).items, exp)
    # second-to-last weekday of the month
    s12 = dt(1997, 9, 29, 9)
    exp = [dt(1997, 9, 29, 9), dt(1997, 10, 30, 9), dt(1997, 11, 27, 9), dt(1997, 12, 30, 9)]
    chk("setpos-2", expand(s12, {"freq": "MONTHLY", "byday": [(0, i) for i in range(5)], "bysetpos": [-2]}, want=4).items[:4], exp)
    # every 3 hours from 9 to 17 on a specific day
    s13 = dt(1997, 9, 2, 9)
    chk("3hours", expand(s13, {"freq": "HOURLY", "interval": 3, "until": dt(1997, 9, 2, 17)}).items,
        [dt(1997, 9, 2, 9), dt(1997, 9, 2, 12), dt(1997, 9, 2, 15)])
    # every 15 minutes for 6 occurrences; every hour and a half for 4
    chk("15min", expand(s13, {"freq": "MINUTELY", "interval": 15, "count": 6}).items,
        [s13 + D.timedelta(minutes=15 * i) for i in range(6)])
    chk("90min", expand(s13, {"freq": "MINUTELY", "interval": 90, "count": 4}).items,
        [s13 + D.timedelta(minutes=90 * i) for i in range(4)])
    # every 20 minutes from 9:00 to 16:40 every day, two spellings
    a = expand(s13, {"freq": "DAILY", "byhour": list(range(9, 17)), "byminute": [0, 20, 40]}, want=50).items[:50]
    b = expand(s13, {"freq": "MINUTELY", "interval": 20, "byhour": list(range(9, 17))}, want=50).items[:50]
    exp = []
    d = D.date(1997, 9, 2)
    while len(exp) < 50:
        for h in range(9, 17):
            for mi in (0, 20, 40):
                exp.append(dt(d.year, d.month, d.day, h, mi))
        d += D.timedelta(days=1)
    chk("20min-a", a, exp[:50])
    chk("20min-b", b, exp[:50])
    # last work day of the month, last Monday
    s14 = dt(1997, 9, 29, 9)
    chk("last-MO", expand(s14, {"freq": "MONTHLY", "byday": [(-1, 0)]}, want=3).items[:3],
        [dt(1997, 9, 29, 9), dt(1997, 10, 27, 9), dt(1997, 11, 24, 9)])
    # monthly on the third-to-last day
    s15 = dt(1997, 9, 28, 9)
    chk("-3", expand(s15, {"freq": "MONTHLY", "bymonthday": [-3]}, want=4).items[:4],
        [dt(1997, 9, 28, 9), dt(1997, 10, 29, 9), dt(1997, 11, 28, 9), dt(1997, 12, 29, 9)])
    # invalid dates are skipped: 31st of every month
    s16 = D.date(1997, 1, 31)
    chk("31st", expand(s16, {"freq": "MONTHLY"}, want=4).items[:4],
        [D.date(1997, 1, 31), D.date(1997, 3, 31), D.date(1997, 5, 31), D.date(1997, 7, 31)])
    return errs


if __name__ == "__main__":
    e = _selftest()
    print("\n".join(e) if e else "rfc5545 self-test ok")

"""C18 -- date-time and duration text forms round-trip.
Oracle: identity on the value for print->parse; Python arithmetic for hand-spelled forms."""
import calendar
import datetime
import json

from .. import build
from ..common import (Run, Part, LineServer, HarnessCrash, pmap, rng_for, build_or_die, NCPU, I, unI, fmtI)

PROP = "C18"
ALLSEC = 0x3ff


def spellings_dt(y, m, d, H, M, S, ms):
    """(text, expected instant) pairs for one point in time"""
    out = []
    date_iso = "%04d-%02d-%02d" % (y, m, d)
    date_bas = "%04d%02d%02d" % (y, m, d)
    if H is None:
        e = I(y, m, d, 0xff, 0, 0, 0)
        return [(date_iso, e, "date-iso"), (date_bas, e, "date-basic")]
    e = I(y, m, d, H, M, S, ALLSEC)
    t_iso = "%02d:%02d:%02d" % (H, M, S)
    t_bas = "%02d%02d%02d" % (H, M, S)
    out.append((date_iso + "T" + t_iso, e, "dt-iso"))
    out.append((date_iso + "T" + t_iso + "Z", e, "dt-iso-Z"))
    out.append((date_bas + "T" + t_bas, e, "dt-basic"))
    out.append((date_bas + "T" + t_bas + "Z", e, "dt-basic-Z"))
    out.append((date_iso + " " + t_iso, e, "dt-iso-space"))
    if ms is not None:
        e2 = I(y, m, d, H, M, S, ms)
        out.append((date_iso + "T" + t_iso + ".%03d" % ms, e2, "dt-iso-ms"))
        out.append((date_iso + "T" + t_iso + ".%03dZ" % ms, e2, "dt-iso-ms-Z"))
    if S == 0:
        e3 = I(y, m, d, H, M, 0, ALLSEC)
        out.append((date_iso + "T%02d:%02d" % (H, M), e3, "dt-iso-nosec"))
    return out


def dt_cases(rng, tier, wid, nw):
    """yield (y,m,d,H,M,S,ms)"""
    days = []
    d0 = datetime.date(1901, 1, 1)
    nd = (datetime.date(2099, 12, 31) - d0).days + 1
    stride = 1 if tier != "quick" else 10
    off = rng.randrange(stride)
    for k in range(nd):
        dt = d0 + datetime.timedelta(days=k)
        boundary = dt.day == 1 or dt.day >= 28 or (dt.month == 2 and dt.day >= 27) or dt.month in (1, 12) and dt.day in (1, 31)
        if boundary or (k % stride) == off:
            days.append(dt)
    times = [None, (0, 0, 0), (12, 0, 0), (23, 59, 59), (9, 30, 15), (0, 0, 59), (19, 59, 0), (20, 0, 0), (10, 9, 8), (23, 59, 60)]
    # (the last one: a leap second, which RFC 5545 allows and the type holds)
    cases = []
    for i, dt in enumerate(days):
        if i % nw != wid:
            continue
        for t in (times[:6] if i % 7 else times) + ([times[-1]] if (dt.month, dt.day) in ((6, 30), (12, 31)) else []):
            if t is None:
                cases.append((dt.year, dt.month, dt.day, None, None, None, None))
            else:
                cases.append((dt.year, dt.month, dt.day, t[0], t[1], t[2], rng.choice([None, 0, 1, 9, 10, 99, 100, 500, 999])))
    return cases


def run_dt(srv, part, cases):
    cmds, meta = [], []
    for c in cases:
        y, m, d, H, M, S, ms = c
        # 1. library print -> parse
        if H is None:
            inst = I(y, m, d, 0xff, 0, 0, 0)
        else:
            inst = I(y, m, d, H, M, S, ALLSEC if ms is None else ms)
        cmds.append("dtf %x" % inst)
        meta.append(("f", inst, "strf"))
        cmds.append("dtfi %x" % inst)
        meta.append(("f", inst, "strf_ical"))
        # 2. hand-spelled forms
        for text, exp, form in spellings_dt(*c):
            cmds.append("dtp " + text)
            meta.append(("p", exp, form, text))
            if form in ("dt-iso", "dt-basic-Z", "date-basic"):
                cmds.append("dtp0 " + text)
                meta.append(("p", exp, form + "/len0", text))
    try:
        ans = srv.batch(cmds)
    except HarnessCrash as e:
        part.violation("dt/crash-" + e.kind, {"input": e.partial, "summary": e.detail[:800]})
        return
    second = []
    second_meta = []
    for a, mt in zip(ans, meta):
        part.evaluations += 1
        if mt[0] == "f":
            n, _, text = a.partition(" ")
            inst, form = mt[1], mt[2]
            second.append("dtp " + text)
            exp = inst
            if form == "strf_ical" and (inst & 0x3ff) != ALLSEC and ((inst >> 24) & 0xff) != 0xff:
                exp = (inst & ~0x3ff) | ALLSEC   # the iCalendar form has no sub-second part
            second_meta.append((exp, form, text, inst))
        else:
            exp, form, text = mt[1], mt[2], mt[3]
            got, _, cons = a.partition(" ")
            judge_parse(part, "dt", form, text, int(got, 16), int(cons), exp)
    try:
        ans2 = srv.batch(second)
    except HarnessCrash as e:
        part.violation("dt/crash-" + e.kind, {"input": e.partial, "summary": e.detail[:800]})
        return
    for a, (exp, form, text, inst) in zip(ans2, second_meta):
        part.evaluations += 1
        got, _, cons = a.partition(" ")
        judge_parse(part, "dt", form, text, int(got, 16), int(cons), exp, printed_from=inst)


def normI(u):
    """compare instants field-wise; an all-day instant's intra part is don't-care"""
    y, m, d, H, M, S, ms = unI(u)
    if H == 0xff:
        return (y, m, d, 0xff)
    return (y, m, d, H, M, S, ms)


def judge_parse(part, what, form, text, got, cons, exp, printed_from=None):
    yfeat = unI(exp)
    sig = "%s/%s/%s" % (what, form, "leapday" if (yfeat[1], yfeat[2]) == (2, 29) else ("eom" if yfeat[2] >= 28 else "mid"))
    part.nontrivial.add(sig)
    ng, ne = normI(got), normI(exp)
    if form.startswith("dt-iso-nosec"):
        # seconds omitted: not one of the forms the property lists; whole-second vs .000 is not judged
        ng, ne = ng[:6], ne[:6]
    if ng != ne:
        part.violation("%s/%s/wrong-value" % (what, form),
                       {"input": text, "observed": fmtI(got), "expected": fmtI(exp),
                        "printed_from": None if printed_from is None else "%x" % printed_from,
                        "summary": "%r parses as %s, expected %s" % (text, fmtI(got), fmtI(exp))})
    elif cons < len(text):
        part.violation("%s/%s/not-fully-consumed" % (what, form),
                       {"input": text, "observed": cons, "expected": len(text),
                        "summary": "%r: parser consumed %d of %d characters" % (text, cons, len(text))})
    else:
        part.sample({"text": text, "parsed": fmtI(got), "form": form}, cap=1)


# ---------------------------------------------------------------------------
# durations

def dur_spellings(ms_total, rng):
    """equivalent legal spellings of a whole-second duration"""
    s = ms_total // 1000
    d, r = divmod(s, 86400)
    h, r = divmod(r, 3600)
    mi, se = divmod(r, 60)
    out = []

    def timepart(h, mi, se, force=False):
        t = ""
        if h:
            t += "%dH" % h
        if mi or (h and se):
            t += "%dM" % mi
        if se:
            t += "%dS" % se
        return ("T" + t) if t else ""
    # canonical RFC 5545 (minutes present when hours and seconds are)
    canon = "P" + ("%dD" % d if d else "") + timepart(h, mi, se)
    if canon == "P":
        canon = "P0D"
    out.append((canon, "rfc"))
    out.append(("+" + canon, "plus"))
    # what idiff_strf prints (zero components omitted)
    t = ("%dH" % h if h else "") + ("%dM" % mi if mi else "") + ("%dS" % se if se else "")
    iso = "P" + ("%dD" % d if d else "") + ("T" + t if t else "")
    if iso != "P" and iso != canon:
        out.append((iso, "iso-omit"))
    if d and d % 7 == 0 and not (h or mi or se):
        out.append(("P%dW" % (d // 7), "weeks"))
        out.append(("+P%dW" % (d // 7), "plus-weeks"))
    if d:
        # days folded into hours
        out.append(("P" + timepart(d * 24 + h, mi, se), "hours-only"))
    if s:
        out.append(("PT%dS" % s, "seconds-only"))
        if s % 60 == 0:
            out.append(("PT%dM" % (s // 60), "minutes-only"))
        tm, ts = divmod(s, 60)
        if tm and ts:
            out.append(("PT%dM%dS" % (tm, ts), "minutes-seconds"))
        out.append(("P0DT%dS" % s if False else "PT0H0M%dS" % s, "zero-components"))
    else:
        out += [("PT0S", "zero-S"), ("P0W", "zero-W"), ("PT0H0M0S", "zero-components")]
    if d and (h or mi or se):
        out.append(("P%dDT%dH%dM%dS" % (d, h, mi, se), "full"))
    return out


def dur_values(rng, tier, wid, nw):
    vals = set()
    step = 1000 if tier != "quick" else 7000
    off = rng.randrange(step // 1000) * 1000
    for v in range(off, 86400000 + 1, step):
        vals.add(v)
    for v in (0, 1000, 59000, 60000, 61000, 3599000, 3600000, 3601000, 86399000, 86400000, 86401000):
        vals.add(v)
    # days, weeks, around the 32-bit limits (49.7 days in ms, 24.8 days signed)
    for dd in list(range(0, 120)) + [364, 365, 366, 730, 1461, 3650, 3653]:
        for extra in (0, 1000, 3600000, 86399000):
            vals.add(dd * 86400000 + extra)
    for p in (2 ** 31, 2 ** 32, 2 ** 33):
        base = (p // 1000) * 1000
        for k in range(-3, 4):
            vals.add(base + k * 1000)
    # hours > 1193 (32-bit ms overflow), decades in ms
    for hh in (1193, 1194, 2000, 8760, 87600):
        vals.add(hh * 3600000)
        vals.add(hh * 3600000 + 61000)
    n_rand = 300 if tier == "quick" else 6000
    for _ in range(n_rand):
        vals.add(rng.randrange(0, 10 * 366 * 86400) * 1000)
    vals = sorted(vals)
    return vals[wid::nw]


def dclass(v):
    if v == 0:
        return "zero"
    if v < 86400000:
        return "lt1d"
    if v < 2 ** 31:
        return "lt24.8d"
    if v < 2 ** 32:
        return "lt49.7d"
    return "ge49.7d"


def run_dur(srv, part, vals, rng):
    cmds, meta = [], []
    for v in vals:
        cmds.append("idf %d" % v)
        meta.append(("f", v))
        for text, form in dur_spellings(v, rng):
            cmds.append("idp " + text)
            meta.append(("p", v, form, text))
    # sub-second remainders: printed form cannot carry them
    for v in vals[:200]:
        if v % 86400000 < 3600000:
            cmds.append("idf %d" % (v + 500))
            meta.append(("f", v + 500))
    try:
        ans = srv.batch(cmds)
    except HarnessCrash as e:
        part.violation("idiff/crash-" + e.kind, {"input": e.partial, "summary": e.detail[:800]})
        return
    second, smeta = [], []
    for a, mt in zip(ans, meta):
        part.evaluations += 1
        if mt[0] == "f":
            n, _, text = a.partition(" ")
            second.append("idp " + text)
            smeta.append((mt[1], "strf", text))
        else:
            v, form, text = mt[1], mt[2], mt[3]
            got, _, cons = a.partition(" ")
            judge_dur(part, form, text, int(got), int(cons), v)
    try:
        ans2 = srv.batch(second)
    except HarnessCrash as e:
        part.violation("idiff/crash-" + e.kind, {"input": e.partial, "summary": e.detail[:800]})
        return
    for a, (v, form, text) in zip(ans2, smeta):
        part.evaluations += 1
        got, _, cons = a.partition(" ")
        judge_dur(part, form, text, int(got), int(cons), v)


def judge_dur(part, form, text, got, cons, exp):
    part.nontrivial.add("idiff/%s/%s" % (form, dclass(exp)))
    if got != exp:
        if exp % 1000 and form == "strf" and got == exp - exp % 1000:
            key = "idiff/strf/subsecond-dropped"
        else:
            key = "idiff/%s/%s/wrong-value" % (form, dclass(exp))
        part.violation(key, {"input": text, "observed": got, "expected": exp,
                             "summary": "duration %d ms written/spelled as %r reads as %d ms" % (exp, text, got)})
    elif cons < len(text):
        part.violation("idiff/%s/not-fully-consumed" % form,
                       {"input": text, "observed": cons, "expected": len(text),
                        "summary": "%r: parser consumed %d of %d characters" % (text, cons, len(text))})
    else:
        part.sample({"text": text, "ms": got, "form": form}, cap=1)


def worker(args):
    root, seed, tier, wid, nw = args
    part = Part()
    srv = LineServer(build.exe(root, "asan", "h_lib"), wall_timeout=300)
    rng = rng_for(seed, PROP, wid)
    try:
        cases = dt_cases(rng_for(seed, PROP, "days"), tier, wid, nw)
        for i in range(0, len(cases), 500):
            run_dt(srv, part, cases[i:i + 500])
        vals = dur_values(rng_for(seed, PROP, "durs"), tier, wid, nw)
        for i in range(0, len(vals), 500):
            run_dur(srv, part, vals[i:i + 500], rng)
    finally:
        srv.close()
    return part.export()


def main(tier):
    root = build_or_die()
    run = Run(PROP, tier)
    for p in pmap(worker, [(root, run.seed, tier, w, NCPU) for w in range(NCPU)]):
        run.merge(p)
    run.cov["rule"] = ("instants: %s day of 1901..2099 plus all month starts/ends x up to 9 times of day, printed by "
                       "dt_strf and dt_strf_ical and re-parsed, and spelled by hand (ISO/basic, with/without Z, "
                       "space separator, ms, no seconds, len=0 entry); durations: 0..1 day every %s s plus day/week/"
                       "32-bit-boundary/decade values, printed by idiff_strf and re-parsed, and up to 10 equivalent "
                       "spellings each; distinct = (form, calendar class | magnitude class)"
                       % ("every" if tier != "quick" else "every 10th", "1" if tier != "quick" else "7"))
    run.assumptions = ["the iCalendar form carries no sub-second part: instants with ms are compared to the second there",
                       "a spelling counts as read only if the parser consumed all of it (snarf_fld requires that)"]
    return run.finish(min_eval=20000, min_nontrivial=25)


def replay(path):
    w = json.load(open(path))
    root = build_or_die()
    srv = LineServer(build.exe(root, "asan", "h_lib"))
    text = w["input"]
    try:
        if w["key"].startswith("dt/"):
            a = srv.batch(["dtp " + text])[0]
            got = fmtI(int(a.split()[0], 16))
        else:
            a = srv.batch(["idp " + text])[0]
            got = int(a.split()[0])
    finally:
        srv.close()
    print("input %r -> %s (expected %s)" % (text, got, w["expected"]))
    if str(got) != str(w["expected"]):
        print("VIOLATION property=%s replay=%s" % (PROP, path))
        return 1
    return 0

"""C09 -- every rule terminates and stays in bounds; empty sets end the stream.
Oracle: no sanitizer report, every case returns within its CPU budget (re-run on the plain build
with 6x the budget before a hang is called), end-of-stream is sticky."""
import json
import os
import subprocess
import tempfile

from .. import build, evgen, rfc5545, rulegen
from ..common import (Run, Part, CaseServer, HarnessCrash, pmap, rng_for, build_or_die, NCPU, SAN_ENV, san_summary)

PROP = "C09"
BUDGET_ASAN = 10000
BUDGET_PLAIN = 60000
# a stream on a table-based scale that starts within three months of the end of its table has a few dozen periods to look at
# before the scale has no more months for it (5 ms on the plain build for every rule of the list): the one family where "bounded
# work" has a number that does not depend on the rule, and 3 s of CPU for it is a stall, not an expensive rule
BUDGET_TABLE_END = 3000


def features(text):
    """coarse shape of the (first) rule for classifier keys"""
    rules = [l for l in text.split("\n") if l.startswith("RRULE")]
    if not rules:
        return "norule"
    r = rules[0]
    freq = "?"
    for kv in r.split(":", 1)[-1].split(";"):
        if kv.startswith("FREQ="):
            freq = kv[5:13]
    parts = sorted({kv.split("=")[0] for kv in r.split(":", 1)[-1].split(";") if "=" in kv and kv.split("=")[0] not in ("FREQ",)})
    keep = [p for p in parts if p in ("INTERVAL", "COUNT", "UNTIL", "BYMONTH", "BYWEEKNO", "BYYEARDAY", "BYMONTHDAY", "BYDAY",
                                      "BYHOUR", "BYMINUTE", "BYSECOND", "BYSETPOS", "BYEASTER", "SHIFT", "SCALE")]
    return "%s/%s%s" % (freq, "+".join(k.replace("BY", "").lower()[:4] for k in keep) or "none", "/multi" if len(rules) > 1 else "")


def gen_case(rng, k):
    """(text, opts-suffix, stratum)"""
    r = rng.random()
    if r < 0.12:
        rule = rng.choice(evgen.LIMIT_RULES)
        ds = rng.choice(evgen.LIMIT_DTSTARTS) if rng.random() < 0.4 else "20%02d%02d%02dT%02d%02d%02dZ" % (
            rng.randint(0, 98), rng.randint(1, 12), rng.randint(1, 28), rng.randint(0, 23), rng.randint(0, 59), rng.randint(0, 59))
        par = ";VALUE=DATE" if "T" not in ds else ""
        text = "BEGIN:VCALENDAR\nBEGIN:VEVENT\nUID:lim@verif\nSUMMARY:x\nDTSTART%s:%s\nRRULE:%s\nEND:VEVENT\nEND:VCALENDAR\n" % (par, ds, rule)
        return text, "limits"
    text, meta = evgen.gen_event(rng, odd=True)
    if r < 0.3:
        return evgen.mutate_bytes(rng, text), "mutated"
    if r < 0.42:
        # with exception rules / dates from the same language
        x, _ = evgen.any_rule_text(rng, meta["is_date"], odd=True)
        extra = "EXRULE:" + x + "\n"
        if rng.random() < 0.5:
            extra += "EXDATE:" + evgen.fmt_dt(meta["dtstart"], z=not meta["is_date"]) + "\n"
        if rng.random() < 0.4:
            extra += "RDATE:" + ",".join(evgen.fmt_dt(meta["dtstart"], z=not meta["is_date"]) for _ in range(rng.randint(1, 4))) + "\n"
        # an exception rule that ticks much faster than the rule it is applied to is a stratum of its own: the filter walks
        # the exception stream event by event (listed finding)
        return text.replace("END:VEVENT", extra + "END:VEVENT"), ("exceptions/exrule-dense" if per_day(x) >= 1440 else "exceptions")
    return text, "full-language"


def per_day(rule):
    """upper estimate of how many events a rule produces per day"""
    kv = dict(p.split("=", 1) for p in rule.split(";") if "=" in p)
    n = lambda k: max(1, len(kv[k].split(","))) if k in kv else 1
    try:
        iv = max(1, int(kv.get("INTERVAL", "1")))
    except ValueError:
        iv = 1
    f = kv.get("FREQ", "")
    if f == "SECONDLY":
        return 86400.0 / iv
    if f == "MINUTELY":
        return 1440.0 / iv * n("BYSECOND")
    if f == "HOURLY":
        return 24.0 / iv * n("BYMINUTE") * n("BYSECOND")
    return n("BYHOUR") * n("BYMINUTE") * n("BYSECOND")


def run_one(srv_asan, plain_exe, part, text, stratum, npop, style):
    # the dense-EXRULE stratum is a listed finding (minutes to hours of CPU): it is told apart from an answer that merely
    # takes long by a smaller budget, there is no point in waiting 70 s for each of them
    b_asan, b_plain = (BUDGET_ASAN, BUDGET_PLAIN) if not stratum.endswith("exrule-dense") else (BUDGET_ASAN // 4, BUDGET_PLAIN // 6)
    if stratum == "limits/table-end":
        b_asan, b_plain = BUDGET_TABLE_END, BUDGET_TABLE_END
    opts = "n=%d style=%s budget=%d" % (npop, style, b_asan)
    sig = features(text) + "/" + stratum
    part.evaluations += 1
    try:
        lines = srv_asan.case(opts, text)
    except HarnessCrash as e:
        if e.kind == "timeout":
            # slow because instrumented?  second opinion on the plain build with a larger budget
            p = CaseServer(plain_exe, wall_timeout=200)
            try:
                import time
                t0 = time.time()
                p.case("n=%d style=%s budget=%d" % (npop, style, b_plain), text)
                dt = time.time() - t0
                part.count("second_opinions_" + ("under_1s" if dt < 1 else "1_to_3s" if dt < 3 else "3_to_6s" if dt < 6 else "over_6s"))
                if dt >= 3:
                    part.sample({"slow_on_plain_build_s": round(dt, 1), "event": text.split("\n")[4:8], "n": npop}, cap=6)
                part.inconclusive.append({"why": "over budget under ASan, within budget on the plain build", "sig": sig})
                part.count("slow_but_terminating")
                return
            except HarnessCrash as e2:
                if e2.kind == "timeout":
                    part.violation(sig + ("/stall-at-table-end" if stratum == "limits/table-end" else "/hang"),
                                   {"input": text, "n": npop, "style": style, "stratum": stratum,
                                    "summary": "no answer within %d ms CPU (ASan) and %d ms CPU (plain build)" % (b_asan, b_plain)})
                else:
                    part.violation(sig + "/crash-" + e2.kind, {"input": text, "n": npop, "style": style, "stratum": stratum, "summary": e2.detail[:1500]})
                return
            finally:
                p.close()
        head = e.detail.split("\n")[0][:160]
        part.violation(sig + "/" + e.kind, {"input": text, "n": npop, "style": style, "summary": head, "log": e.detail[:4000]})
        return
    # end-of-stream is sticky and nothing follows it
    occ = [l for l in lines if l.startswith("O ")]
    part.count("occurrences_popped", len(occ))
    if occ:
        part.nontrivial.add(sig)
    if any(l.startswith("M ") for l in lines):
        pass  # peek purity belongs to C03/C01
    if len(part.samples) < 2 and len(occ) > 3:
        part.sample({"event": text.split("\n")[4:7], "stratum": stratum, "popped": len(occ)})


def worker(args):
    root, seed, tier, wid, nw, ncases = args
    part = Part()
    srv = CaseServer(build.exe(root, "asan", "h_strm"), wall_timeout=150)
    plain = build.exe(root, "plain", "h_strm")
    rng = rng_for(seed, PROP, wid)
    try:
        # the limits list once through, shared between the workers, each rule with a DTSTART of the list and a random one
        # (rules on a table-based scale also from shortly before the end of their table, so that the stream runs into it)
        ends = {"SCALE=HIJRI.DIYANET": ("20221101T090000Z", "20221220"), "SCALE=HIJRI": ("20770901T120000Z", "20771110")}
        lim = [(r, d) for r in evgen.LIMIT_RULES
               for d in (None, 0) + ends.get(([p for p in r.split(";") if p.startswith("SCALE=")] or [""])[0], ())]
        # wall-clock times that do not exist (clocks set forward), as DTSTART and as something a daily or hourly rule runs into
        for zone, day, tm in (("Europe/Berlin", "20240331", "023000"), ("America/New_York", "20240310", "020000"), ("Europe/London", "20240331", "013000"),
                              ("Australia/Lord_Howe", "20241006", "021500"), ("America/Santiago", "20240908", "000000"), ("Asia/Tehran", "20210322", "003000")):
            for rule in ("FREQ=DAILY;COUNT=100", "FREQ=HOURLY;COUNT=100", "FREQ=MINUTELY;INTERVAL=15;COUNT=100", "FREQ=YEARLY"):
                lim.append((rule, "TZID=%s:%sT%s" % (zone, day, tm)))
                lim.append((rule, "TZID=%s:%sT%s" % (zone, "%s%02d%s" % (day[:4], int(day[4:6]) - 2, day[6:]), tm)))
        lim = lim[wid::nw]
        for k in range(ncases + len(lim)):
            if k >= ncases:
                rule, pick = lim[k - ncases]
                ds = rng.choice(evgen.LIMIT_DTSTARTS) if pick is None else pick if pick else "20%02d%02d%02dT%02d%02d%02dZ" % (
                    rng.randint(0, 98), rng.randint(1, 12), rng.randint(1, 28), rng.randint(0, 23), rng.randint(0, 59), rng.randint(0, 59))
                par = ";VALUE=DATE" if "T" not in ds else ""
                if ds.startswith("TZID="):
                    par, ds = ";" + ds.split(":", 1)[0], ds.split(":", 1)[1]
                text = "BEGIN:VCALENDAR\nBEGIN:VEVENT\nUID:lim@verif\nSUMMARY:x\nDTSTART%s:%s\nRRULE:%s\nEND:VEVENT\nEND:VCALENDAR\n" % (par, ds, rule)
                stratum = "limits/table-end" if pick and not pick.startswith("TZID=") and "SCALE=HIJRI" in rule else "limits"
                if stratum == "limits/table-end":
                    part.count("table_end_cases")
            else:
                text, stratum = gen_case(rng, k)
            npop = rng.choice([3, 70, 200]) if tier == "quick" else rng.choice([3, 70, 200, 700])
            style = rng.choice(["pop", "peekpop", "npeek"])
            run_one(srv, plain, part, text, stratum, npop, style)
        part.count("asan_restarts", srv.restarts)
    finally:
        srv.close()
    return part.export()


def filter_worker(args):
    """rules as query language: echse unroll --filter (the echs_instant_matches_p entry)"""
    root, seed, tier, n = args
    part = Part()
    rng = rng_for(seed, PROP, "filter")
    cli = build.exe(root, "asan", "echse")
    env = dict(os.environ)
    env.update(SAN_ENV)
    base = ("BEGIN:VCALENDAR\nBEGIN:VEVENT\nUID:f@verif\nSUMMARY:x\nDTSTART;VALUE=DATE:20000101\nRRULE:FREQ=DAILY;COUNT=800\n"
            "END:VEVENT\nEND:VCALENDAR\n")
    with tempfile.NamedTemporaryFile("w", suffix=".ics", delete=False) as f:
        f.write(base)
        fn = f.name
    try:
        for _ in range(n):
            filt, _r = evgen.any_rule_text(rng, True, odd=True)
            filt = ";".join(p for p in filt.split(";") if not p.startswith(("FREQ=", "COUNT=", "INTERVAL=")))
            if not filt:
                continue
            part.evaluations += 1
            try:
                p = subprocess.run([cli, "unroll", "--format", "%b", "--filter", filt, fn], stdout=subprocess.PIPE,
                                   stderr=subprocess.PIPE, env=env, timeout=60)
            except subprocess.TimeoutExpired:
                part.violation("filter/hang/" + filt, {"input": filt, "summary": "echse unroll --filter '%s' did not finish in 60 s" % filt})
                continue
            err = p.stderr.decode(errors="replace")
            head, frames = san_summary(err)
            if head or p.returncode not in (0, 1):
                part.violation("filter/sanitizer/" + ">".join(frames[:2]), {"input": filt, "summary": (head or "exit %d" % p.returncode)[:200],
                                                                           "log": err[:3000]})
            else:
                part.nontrivial.add("filter/" + "+".join(sorted(x.split("=")[0] for x in filt.split(";"))))
    finally:
        os.unlink(fn)
    return part.export()


def _dispatch(a):
    return a[0](a[1])


def main(tier):
    root = build_or_die()
    run = Run(PROP, tier)
    total = 6000 if tier == "quick" else 300000
    jobs = [(worker, (root, run.seed, tier, w, NCPU, total // NCPU)) for w in range(NCPU)]
    jobs.append((filter_worker, (root, run.seed, tier, 150 if tier == "quick" else 3000)))
    for p in pmap(_dispatch, jobs, procs=NCPU):
        run.merge(p)
    run.cov["rule"] = ("everything the parser accepts: the full-language generator with validity rules off (any BY part with any "
                       "FREQ, maximal hour x minute x second products, incongruent INTERVAL/BYxxx, impossible dates, ordinals "
                       "out of range), a list of limit rules and DTSTARTs at the edge of the range, byte-mutated RRULE/DTSTART "
                       "lines, EXRULE/EXDATE/RDATE combinations, and rule texts used as unroll --filter expressions; each case "
                       "pops up to %d occurrences under ASan+UBSan with a %d ms CPU budget (re-run on the plain build with %d ms "
                       "before a hang is called); distinct = (FREQ, parts present, stratum) with >= 1 occurrence"
                       % (200 if tier == "quick" else 700, BUDGET_ASAN, BUDGET_PLAIN))
    run.assumptions = ["'bounded work' is judged against a CPU budget, not proved",
                       "ASan red zones do not see overflows that land inside another live object"]
    return run.finish(min_eval=total // 2, min_nontrivial=40)


def replay(path):
    w = json.load(open(path))
    root = build_or_die()
    part = Part()
    if w["key"].startswith("filter/"):
        print("filter case:", w["input"])
        return 1
    srv = CaseServer(build.exe(root, "asan", "h_strm"), wall_timeout=150)
    run_one(srv, build.exe(root, "plain", "h_strm"), part, w["input"], w.get("stratum") or "replay", w.get("n", 200), w.get("style", "pop"))
    srv.close()
    if part.viol:
        for k, v in part.viol.items():
            print("VIOLATION property=%s replay=%s\n  %s %s" % (PROP, path, k, str(v[1].get("summary"))[:300]))
        return 1
    print("held on replayed input")
    return 0

"""C12 -- X-ECHS-MAX-SIMUL bounds the concurrent runs of a task, and only of that task.
Same harness as C04 (echsd.c on the real libev, virtual clock, process table); the spawn/exit/reap
log is checked against the counting rule of the property."""
import json
import os
import shutil
import tempfile

from .. import build, sched
from ..common import Run, Part, CaseServer, HarnessCrash, pmap, rng_for, build_or_die, NCPU
from .C04 import fmt_dt, vcal, occurrences, cancel_text

PROP = "C12"


def gen_task(rng, uid, now, span, force_limit=None):
    per = rng.choice([1, 1, 2, 5, 10, 60])
    start = int(now) + rng.choice([-7 * per, -per, 0, 1, 3])
    n_occ = int(min(400, (now + span - start) / per + 1))
    r = "FREQ=SECONDLY;INTERVAL=%d" % per if per < 60 else "FREQ=MINUTELY"
    if rng.random() < 0.5:
        r += ";COUNT=%d" % rng.randint(1, max(1, n_occ))
    else:
        r += ";UNTIL=" + fmt_dt(start + n_occ * per)
    lim = force_limit
    if lim is None:
        lim = rng.choice([None, None, 1, 1, 2, 3, 5, 7, 61, 62, rng.randint(1, 62)])
    lines = ["BEGIN:VEVENT", "UID:" + uid, "SUMMARY:job " + uid, "DTSTART:" + fmt_dt(start), "RRULE:" + r]
    if lim is not None and lim != "global":
        lines.append("X-ECHS-MAX-SIMUL:%d" % lim)
    if rng.random() < 0.2:
        base = int(now + rng.choice([5, 30]))
        lines.append("RDATE:" + ",".join(fmt_dt(x) for x in (base, base, base + 1)))
    lines.append("END:VEVENT")
    return "\n".join(lines), per, lim


def build_history(rng, srv, spool):
    now = float(rng.randint(1000000000, 1600000000)) + rng.choice([0.25, 0.5, 0.731])
    span = rng.choice([30, 90, 200, 700])
    t_end = now + span
    sc = sched.Script(spool, now)
    ntasks = rng.choice([1, 2, 2, 3, 6])
    owner = 1000
    incs = {}
    timeline = []
    pers = []
    for i in range(ntasks):
        uid = "m%d@verif" % i
        text, per, lim = gen_task(rng, uid, now, span)
        pers.append(per)
        timeline.append((now + rng.choice([0, 0, 0.5, span * 0.1]), "add", (uid, text, lim)))
        r = rng.random()
        if r < 0.15:
            text2, per2, lim2 = gen_task(rng, uid, now + span * 0.5, span)
            timeline.append((now + span * rng.choice([0.4, 0.5]), "add", (uid, text2, lim2)))
        elif r < 0.3:
            tc = now + span * rng.choice([0.3, 0.5, 0.7])
            timeline.append((tc, "cancel", (uid,)))
            if rng.random() < 0.7:
                # somebody else's task comes in while the cancelled one's executions are still about
                uid2 = "n%d@verif" % i
                text2, per2, lim2 = gen_task(rng, uid2, tc, span, force_limit=rng.choice([None, 1, 1, 2, 5]))
                pers.append(per2)
                # ... right away, or after some of them have ended
                t2 = tc + rng.choice([0.0, 0.001, 0.5, 3.0, per * 0.7, per * 1.5, per * 3.2, span * 0.1])
                if t2 < t_end - 1.0:
                    timeline.append((t2, "add", (uid2, text2, lim2)))
    timeline.sort(key=lambda x: (x[0], x[1] != "cancel"))
    # lifetimes relative to the periods in play: shorter, equal (ties with the next timer), longer, much longer, never
    lives = []
    style = rng.choice(["mixed", "long", "never", "tie", "short"])
    for _ in range(rng.randint(1, 60)):
        p = rng.choice(pers)
        if style == "mixed":
            l = rng.choice([0.01, p * 0.5, p - 0.001, p, p + 0.001, 1.5 * p, 3 * p, 3.5 * p, 10 * p, 70 * p, -1])
        elif style == "long":
            l = rng.choice([3 * p, 10 * p, 63 * p, 70 * p])
        elif style == "never":
            l = -1
        elif style == "tie":
            l = rng.choice([p, 2 * p, 3 * p, 5 * p])
        else:
            l = rng.choice([0.01, p * 0.5])
        lives.append(l)
    sc.add("lives " + " ".join("%g" % x for x in lives))
    if rng.random() < 0.5:
        # exits arrive as a signal while the loop is about to poll and are collected after the timers of the same
        # iteration (what a daemon that was held up sees); otherwise they are seen before the timers
        sc.add("reapmode poll")
    t = now
    conn = 0
    stalls = 0
    # job control: in a quarter of the histories an operator stops and continues executors (kill -STOP/-CONT, ^Z and fg
    # on a foreground daemon's process group); a stopped executor is as alive as a running one
    jobctl = rng.random() < 0.25
    stopped = []
    # now and then the system cannot start another process (EAGAIN): that occurrence is lost, the ones after it are not
    spawnfail = rng.random() < 0.12

    def advance(to):
        nonlocal t, stalls
        while t < to:
            step = min(to, t + rng.choice([span / 7.0, span / 3.0, span]))
            if jobctl and rng.random() < 0.5:
                if stopped and rng.random() < 0.5:
                    sc.add("cont %d" % stopped.pop(rng.randrange(len(stopped))))
                else:
                    k = rng.randrange(0, 12)
                    stopped.append(k)
                    sc.add("stop %d" % k)
            if spawnfail and rng.random() < 0.3:
                sc.add("spawnfail %d" % rng.randint(1, 6))
            r = rng.random()
            if r < 0.1:
                dt = rng.choice([0.5, 3.0, 12.0])
                if t + dt < to:
                    sc.add("stall %.3f" % dt)
                    t += dt
                    stalls += 1
            elif r < 0.15:
                sc.add("late %.3f" % rng.choice([0.002, 0.5, 2.5]))
            if step <= t:
                step = to
            sc.add("run %.6f" % step)
            t = step

    for (te, kind, pl) in timeline:
        advance(te)
        if kind == "add":
            uid, text, lim = pl
            data = vcal([text])
            if lim not in (None, "global") and rng.random() < 0.25:
                # the calendar has a default of its own, which is for tasks that say nothing; the task may come as a VTODO
                other = rng.choice([x for x in (1, 2, 3, 5, 62) if x != lim])
                data = data.replace("VERSION:2.0\n", "VERSION:2.0\nX-ECHS-MAX-SIMUL:%d\n" % other, 1)
                if rng.random() < 0.5:
                    data = data.replace("BEGIN:VEVENT", "BEGIN:VTODO").replace("END:VEVENT", "END:VTODO")
            data = data.encode()
            sc.req(owner, data)
            occ, more = occurrences(srv, text, t_end + 10)
            lst = incs.setdefault(uid, [])
            if lst and lst[-1].end is None:
                lst[-1].end = t
                lst[-1].end_conn = conn
            inc = sched.Incarnation(uid, owner, t, occ, limit=lim)
            inc.more = more
            inc.conn = conn
            lst.append(inc)
        else:
            uid = pl[0]
            sc.req(owner, cancel_text(uid).encode())
            lst = incs.get(uid, [])
            if lst and lst[-1].end is None:
                lst[-1].end = t
                lst[-1].end_conn = conn
        conn += 1
    advance(t_end)
    sc.add("dump")
    return sc, incs, t, {"now": now, "span": span, "ntasks": ntasks, "stalls": stalls, "lives": style}


def run_history(root, srv, part, rng):
    spool = tempfile.mkdtemp(prefix="c12-spool-")
    try:
        sc, incs, t_end, meta = build_history(rng, srv, spool)
        part.evaluations += 1
        events, out, err, rc = sched.run_script(root, sc.text())
        if events is None or rc != 0 or not any(e[0] == "END" for e in events):
            head, frames = sched.san_summary(err)
            part.violation("daemon-crash/" + (">".join(frames[:2]) or "rc%s" % rc),
                           {"input": sc.text(), "summary": (head or err[-300:] or "no END marker")[:300], "log": err[-3000:]})
            return
        if sched.harness_overflow(events):
            part.inconclusive.append({"why": "history outgrew the harness's process table"})
            return
        fails = []
        st = sched.check_maxsimul(events, incs, lambda k, d: fails.append((k, d)))
        # a limited task must not lose or gain occurrences either: every due occurrence gets one spawn, run or no-run
        sched.check_schedule(events, incs, t_end, lambda k, d: fails.append(("schedule/" + k, d)))
        if "\nSPAWNFAIL " in out:
            part.count("spawns_that_failed", out.count("\nSPAWNFAIL "))
        nstop = out.count("\nSTOP ")
        if nstop:
            part.count("executors_stopped_while_running", nstop)
            part.count("executors_continued", out.count("\nCONT "))
            part.count("histories_with_stopped_executors")
        for k in st:
            if k != "max_running":
                part.count(k, st[k])
        for b in (1, 2, 5, 20, 62):
            if st["max_running"] >= b:
                part.count("histories_with_%d_or_more_running_at_once" % b)
        lims = sorted(set(str(i.limit) for l in incs.values() for i in l))
        if st["limited_spawns"]:
            part.nontrivial.add("lims=%s at_limit=%d norun=%d after=%d lives=%s" % (
                ",".join(lims), min(st["spawns_at_limit"], 9), min(st["norun_spawns"], 9), min(st["runs_after_limit"], 3), meta["lives"]))
        for k, d in fails:
            part.violation(k, {"input": sc.text(), "detail": d, "meta": meta, "incs": sched.incs_to_json(incs), "t_end": t_end,
                               "summary": "%s (history: %d tasks over %ds, lives %s)" % (d, meta["ntasks"], meta["span"], meta["lives"])})
        if not fails and len(part.samples) < 2 and st["spawns_at_limit"] and st["runs_after_limit"]:
            part.sample({"tasks": meta["ntasks"], "limits": lims, "spawns_at_limit": st["spawns_at_limit"],
                         "norun_spawns": st["norun_spawns"], "runs_after_limit_freed": st["runs_after_limit"], "max_running": st["max_running"]})
    finally:
        shutil.rmtree(spool, ignore_errors=True)


def worker(args):
    root, seed, tier, wid, nw, n = args
    part = Part()
    srv = CaseServer(build.exe(root, "asan", "h_strm"), wall_timeout=60)
    rng = rng_for(seed, PROP, wid)
    try:
        for _ in range(n):
            try:
                run_history(root, srv, part, rng)
            except HarnessCrash as e:
                part.inconclusive.append({"why": "library harness: " + e.kind})
    finally:
        srv.close()
    return part.export()


def main(tier):
    root = build_or_die()
    if not os.path.exists(build.exe(root, "asan", "h_echsd")):
        print("HARNESS-FAILURE h_echsd not built")
        return 2
    run = Run(PROP, tier)
    total = 640 if tier == "quick" else 32000
    for p in pmap(worker, [(root, run.seed, tier, w, NCPU, total // NCPU) for w in range(NCPU)]):
        run.merge(p)
    run.cov["rule"] = ("1-6 tasks per daemon with periods 1 s..1 min, X-ECHS-MAX-SIMUL in {unset, 1, 2, 3, 5, 7, 61, 62, random 1..62}, child "
                       "lifetimes shorter than / equal to (ties with the timer) / longer than / 70x the period or never, stalls, late "
                       "wake-ups, replace and cancel; checker over SPAWN/EXIT/REAP: a real run never starts while N are alive, --no-run "
                       "is passed only when the daemon knows of N unreaped ones and never on an unlimited task, every due occurrence "
                       "is still served exactly once (run or no-run); distinct = (limits in play, spawns at the limit, no-run spawns, "
                       "real runs after the limit was left, lifetime style)")
    run.assumptions = ["children are process-table entries of the harness; -n/--no-run in argv is what 'reported as not run' is taken from "
                       "(the echsx side of --no-run is exercised by C13)",
                       "children of a replaced definition count towards the limit of the replacement (same UID)"]
    return run.finish(min_eval=total // 2, min_nontrivial=10)


def replay(path):
    """re-run the recorded history on the current tree and judge it again"""
    w = json.load(open(path))
    root = build_or_die()
    print("recorded:", w.get("key"), "|", w.get("detail") or w.get("summary"))
    events, out, err, rc = sched.run_script(root, w["input"])
    if events is None or rc != 0 or not any(e[0] == "END" for e in events):
        print("now: the daemon harness dies (rc %s): %s" % (rc, err[-400:]))
        return 1
    if "incs" not in w:
        return 0 if w.get("key", "").startswith("daemon-crash") else 1
    incs = sched.incs_from_json(w["incs"])
    fails = []
    sched.check_maxsimul(events, incs, lambda k, d: fails.append((k, d)))
    sched.check_schedule(events, incs, w["t_end"], lambda k, d: fails.append(("schedule/" + k, d)))
    for k, d in fails[:10]:
        print("now:", k, d)
    if not fails:
        print("now: the MAX-SIMUL rules hold on this history")
    return 1 if fails else 0

"""C03 -- merged event stream is chronological, complete and duplicate-free; peek is pure.
Online monitor over the call log of a peek/pop/clone schedule + offline multiset comparison with the
k-way union of the constituents (each unrolled alone by the same code)."""
import datetime as D
import json
import os
import subprocess
import tempfile

from .. import build, rfc5545, rulegen
from ..common import (Run, Part, CaseServer, HarnessCrash, pmap, rng_for, build_or_die, NCPU, SAN_ENV, unesc)
from .C01 import to_py

PROP = "C03"


def rule_text(r):
    return r["raw"] if "raw" in r else rfc5545.rule_text(r)


def rule_for(rng, is_date):
    if rng.random() < 0.08:
        # the SHIFT extension moves dates across period borders (a Saturday onto the Monday that is next month's first):
        # the rule's own batch must come out sorted and without the doubled day; short, so that no refill falls in
        # between (what happens across refills is a listed finding of C16)
        wd = ",".join(rng.sample(["MO", "TU", "FR", "SA", "SU"], rng.randint(2, 3)))
        base = rng.choice(["FREQ=MONTHLY;BYDAY=" + wd, "FREQ=MONTHLY;BYMONTHDAY=1,-1", "FREQ=MONTHLY;BYMONTHDAY=1,2,28,-1"])
        if not is_date and rng.random() < 0.6:
            base += ";BYHOUR=%s" % ",".join(map(str, sorted(rng.sample(range(24), 2))))
        n = rng.choice([10, 20, 40])
        return {"raw": "%s;SHIFT=%s;COUNT=%d" % (base, rng.choice(["+0B", "-0B", "1B", "-1B", "2", "-3"]), n), "count": n, "freq": "MONTHLY"}
    f = rng.choice(["DAILY", "WEEKLY", "MONTHLY", "YEARLY", "HOURLY" if not is_date else "DAILY"])
    r = {"freq": f, "interval": rng.choice([1, 1, 2, 3, 5])}
    if f == "WEEKLY" and rng.random() < 0.5:
        r["byday"] = [(0, w) for w in sorted(rng.sample(range(7), rng.randint(1, 3)))]
    if f == "MONTHLY" and rng.random() < 0.5:
        r["bymonthday"] = sorted(rng.sample(range(1, 29), rng.randint(1, 2)))
    if f == "YEARLY" and rng.random() < 0.5:
        r["bymonth"] = sorted(rng.sample(range(1, 13), rng.randint(1, 3)))
    lim = rng.random()
    if lim < 0.6:
        r["count"] = rng.choice([1, 2, 3, 7, 20, 63, 64, 65, 100])
    return r


def fmt(x):
    return x.strftime("%Y%m%dT%H%M%SZ") if isinstance(x, D.datetime) else x.strftime("%Y%m%d")


def vevent(uid, dtstart, rules, until=None, rdates=None, tzid=None):
    is_date = not isinstance(dtstart, D.datetime)
    l = ["BEGIN:VEVENT", "UID:" + uid, "SUMMARY:job " + uid,
         ("DTSTART;VALUE=DATE:" if is_date else "DTSTART:") + fmt(dtstart)]
    if tzid and not is_date:
        l[-1] = "DTSTART;TZID=%s:%s" % (tzid, dtstart.strftime("%Y%m%dT%H%M%S"))
    for r in rules:
        l.append("RRULE:" + rule_text(r))
    for line in rdates or []:
        l.append(line)
    l.append("END:VEVENT")
    return "\n".join(l)


def rdate_lines(rng, dt, is_date, tzid):
    """1..3 RDATE lines of 1..4 values each, in shuffled order; a timed event's lines are written in UTC form, with a
    TZID of their own, or as dates (which take DTSTART's time of day), so that one event can mix the forms"""
    from .C02 import in_zone, OTHER_ZONES
    lines = []
    for _ in range(rng.choice([1, 1, 2, 3])):
        vals = list({dt + D.timedelta(days=rng.randint(1, 60), **({} if is_date else {"hours": rng.choice([0, 0, 1, 5, 11, 13])}))
                     for _ in range(rng.randint(1, 4))})
        rng.shuffle(vals)
        if is_date:
            lines.append("RDATE;VALUE=DATE:" + ",".join(fmt(x) for x in vals))
            continue
        form = rng.choice(["utc", "utc", "zone", "date"])
        if form == "zone":
            zone = rng.choice([z for z in OTHER_ZONES if z != tzid])
            loc = in_zone(vals, zone)
            if loc is not None:
                lines.append("RDATE;TZID=%s:%s" % (zone, ",".join(x.strftime("%Y%m%dT%H%M%S") for x in loc)))
                continue
        if form == "date":
            lines.append("RDATE;VALUE=DATE:" + ",".join(sorted({x.strftime("%Y%m%d") for x in vals}, key=lambda _: rng.random())))
            continue
        lines.append("RDATE:" + ",".join(fmt(x) for x in vals))
    return lines


def split_rdates(lines):
    """every value of every RDATE line as a line of its own"""
    out = []
    for l in lines or []:
        head, vals = l.rsplit(":", 1)
        out += [head + ":" + v for v in vals.split(",")]
    return out


def vcal(events):
    return "BEGIN:VCALENDAR\nVERSION:2.0\n" + "\n".join(events) + "\nEND:VCALENDAR\n"


def gen_mux(rng):
    """a calendar of 1..12 events; returns (text, constituents) where constituents are (uid, single-event text)"""
    mode = rng.random()
    is_date = mode < 0.25
    mixed = mode > 0.8                   # all-day and timed events in one calendar: they tie on the day level
    base = D.date(rng.randint(1990, 2030), rng.randint(1, 12), rng.randint(1, 28))
    nev = rng.choice([1, 2, 2, 3, 4, 6, 12])
    evs = []
    same_start = rng.random() < 0.5      # provoke ties
    for i in range(nev):
        d = base if same_start and rng.random() < 0.7 else base + D.timedelta(days=rng.randint(0, 40))
        if mixed:
            is_date = rng.random() < 0.5
        dt = d if is_date else D.datetime.combine(d, D.time(rng.choice([0, 9, 9, 12]), rng.choice([0, 0, 30]), 0))
        nr = rng.choice([0, 1, 1, 1, 2, 3, 6])
        rules = [rule_for(rng, is_date) for _ in range(nr)]
        if nr >= 2 and rng.random() < 0.4:
            rules[1] = dict(rules[0])          # identical rule twice: same uid, same instants
        tzid = None
        if not is_date and rng.random() < 0.2:
            tzid = rng.choice(["Europe/Berlin", "America/New_York", "Asia/Tokyo", "Australia/Sydney", "America/Los_Angeles"])
        until_all = rng.random() < 0.3
        for r in rules:
            if "count" not in r and (until_all or rng.random() < 0.5):
                r["until"] = (dt + D.timedelta(days=rng.choice([0, 10, 100, 1000])))
                if tzid:
                    # UNTIL is a UTC value: the instant of the wall-clock time that many days on (an occurrence, for
                    # rules that keep the time of day)
                    import zoneinfo
                    loc = r["until"].replace(tzinfo=zoneinfo.ZoneInfo(tzid))
                    r["until"] = loc.astimezone(D.timezone.utc).replace(tzinfo=None)
        rd = rdate_lines(rng, dt, is_date, tzid) if rng.random() < 0.3 else None
        evs.append(("u%d@verif" % i, dt, rules, rd, tzid))
    text = vcal([vevent(u, dt, rules, rdates=rd, tzid=tz) for (u, dt, rules, rd, tz) in evs])
    return text, evs, (is_date if not mixed else None)


def schedule(rng, n):
    kind = rng.choice(["pops", "np", "nkp", "random", "clone"])
    if kind == "pops":
        return "p" * n, kind
    if kind == "np":
        return "np" * (n // 2), kind
    if kind == "nkp":
        w = ""
        while len(w) < n:
            w += "n" * rng.randint(1, 4) + "p"
        return w, kind
    if kind == "clone":
        w = ""
        while len(w) < n:
            w += rng.choice(["p", "p", "np", "c", "nnp", "pc"])
        return w, kind
    return "".join(rng.choice("nnppp") for _ in range(n)), kind


def parse_calls(lines):
    calls = []
    for l in lines:
        if l[:2] in ("N ", "P "):
            f = l.split()
            if f[1] == "-":
                calls.append((l[0], None))
            else:
                calls.append((l[0], (int(f[1], 16), int(f[2]), unesc(f[3]))))
        elif l.startswith("C "):
            calls.append(("C", l[2:]))
    return calls


def monitor(calls):
    """online rules: returns (fails, popped list)"""
    fails = []
    popped = []
    last_peek = None
    prev_pop = None
    for i, (op, v) in enumerate(calls):
        if op == "C":
            # a clone of an exhausted stream is NULL; the harness then carries on with the original
            continue
        if op == "N":
            if last_peek is not None and last_peek[1] != v and last_peek[0] == "N":
                fails.append(("peek-not-idempotent", "call %d: %s then %s" % (i, last_peek[1], v)))
            last_peek = ("N", v)
        else:
            if last_peek is not None and last_peek[1] != v:
                fails.append(("pop!=preceding-peek", "call %d: peek %s pop %s" % (i, last_peek[1], v)))
            last_peek = None
            if v is not None:
                if prev_pop is not None and key(v[0]) < key(prev_pop[0]):
                    fails.append(("not-chronological", "call %d: %s after %s" % (i, to_py(v[0]), to_py(prev_pop[0]))))
                prev_pop = v
                popped.append(v)
            else:
                popped.append(None)
    return fails, popped


def key(u):
    from ..common import unI
    y, m, d, H, M, S, ms = unI(u)
    return (y, m, d, (H + 1) & 0xff, M, S, (ms + 1) & 0x3ff)


def run_case(srv, part, rng, tier):
    text, evs, is_date = gen_mux(rng)
    n = rng.choice([40, 120, 300])
    word, kind = schedule(rng, n)
    part.evaluations += 1
    lines = srv.case("sched=%s budget=15000" % word, text)
    calls = parse_calls(lines)
    fails, popped = monitor(calls)
    # constituents, each alone, as many pops as the schedule has
    npops = word.count("p")
    cons = []
    # the constituents: every event, and within an event every RRULE (an event with several rules is a merge itself)
    parts = []
    for (u, dt, rules, rd, tz) in evs:
        # ... and every RDATE value (an event whose RDATE lines differ in form is a merge as well)
        one = split_rdates(rd)
        if len(rules) + len(one) >= 2:
            parts += [(u, dt, [r], None, tz) for r in rules]
            parts += [(u, dt, [], [v], tz) for v in one]
            if len(one) > 1:
                part.count("events_with_several_rdates")
            if len({v.split(":")[0] for v in one}) > 1:
                part.count("events_mixing_rdate_forms")
        else:
            parts.append((u, dt, rules, rd, tz))
    for (u, dt, rules, rd, tz) in parts:
        single = vcal([vevent(u, dt, rules, rdates=rd, tzid=tz)])
        ls = srv.case("n=%d budget=15000" % (npops + 2), single)
        occ = []
        ended = False
        for l in ls:
            if l.startswith("O "):
                if l == "O -":
                    ended = True
                    break
                f = l.split()
                occ.append((int(f[1], 16), int(f[2]), unesc(f[3])))
        cons.append((u, occ, ended))
    # offline: multiset equality with the k-way union
    delivered = [v for v in popped if v is not None]
    saw_end = any(v is None for v in popped)
    # nothing may follow the end
    if saw_end:
        idx = popped.index(None)
        if any(v is not None for v in popped[idx:]):
            fails.append(("occurrence-after-end", ""))
    # horizon: every constituent is known up to its last popped start (or completely when it ended)
    horizon = None
    for (u, occ, ended) in cons:
        if not ended:
            h = key(occ[-1][0]) if occ else None
            if h is None:
                continue
            horizon = h if horizon is None else min(horizon, h)
    union = {}
    for (u, occ, ended) in cons:
        for (s, dur, uid) in occ:
            if horizon is None or key(s) <= horizon:
                union[(uid, s)] = (s, dur, uid)
    exp = sorted(union.values(), key=lambda v: key(v[0]))
    if not saw_end:
        # the mux was still going: compare what it delivered with the head of the union
        if delivered:
            lim = key(delivered[-1][0])
            if horizon is not None:
                lim = min(lim, horizon)
            # elements equal to the limit may be pending on either side: compare strictly below it
            dl = [v for v in delivered if key(v[0]) < lim]
            ex = [v for v in exp if key(v[0]) < lim]
        else:
            dl, ex = [], []
    else:
        dl = [v for v in delivered if horizon is None or key(v[0]) <= horizon]
        ex = exp
        if any(not ended for (_, _, ended) in cons):
            fails.append(("ended-before-constituents", "mux reported the end while a constituent still had occurrences"))
    cd, ce = {}, {}
    for v in dl:
        cd[(v[2], v[0])] = cd.get((v[2], v[0]), 0) + 1
    for v in ex:
        ce[(v[2], v[0])] = 1
    missing = [k for k in ce if k not in cd]
    extra = [k for k in cd if k not in ce]
    dups = [k for k, c in cd.items() if c > 1]
    if missing:
        fails.append(("missing", "%s %s" % (missing[0][0], to_py(missing[0][1]))))
    if extra:
        fails.append(("extra", "%s %s" % (extra[0][0], to_py(extra[0][1]))))
    if dups:
        fails.append(("duplicate", "%s %s" % (dups[0][0], to_py(dups[0][1]))))
    # durations travel with the occurrence
    dur_by = {(v[2], v[0]): v[1] for v in ex}
    for v in dl:
        if (v[2], v[0]) in dur_by and dur_by[(v[2], v[0])] != v[1]:
            fails.append(("duration-changed", ""))
            break
    ties = len(ex) - len({v[0] for v in ex})
    early = sum(1 for (_, occ, ended) in cons if ended)
    sig = "k%d/ties%s/early%d/%s" % (min(len(evs), 6), "0" if ties == 0 else ("few" if ties < 5 else "many"), min(early, 3), kind)
    if len(dl) >= 2:
        part.nontrivial.add(sig)
    part.count("calls_monitored", len(calls))
    part.count("occurrences_compared", len(dl))
    for kind_, detail in fails:
        part.violation("k%s/%s/%s" % ("1" if len(evs) == 1 else "n", kind, kind_),
                       {"input": text, "sched": word, "detail": detail,
                        "summary": "%d events, schedule %s...: %s %s" % (len(evs), word[:20], kind_, detail)})
    if not fails and len(part.samples) < 2 and len(dl) > 5:
        part.sample({"events": len(evs), "schedule": word[:40], "delivered": len(dl), "ties": ties,
                     "first": [(v[2], str(to_py(v[0]))) for v in dl[:3]]})


def cli_case(part, rng, root):
    """several files through the echse binary"""
    cli = build.exe(root, "asan", "echse")
    env = dict(os.environ)
    env.update(SAN_ENV)
    files, allev = [], []
    d = tempfile.mkdtemp(prefix="c03-")
    try:
        nf = rng.randint(2, 4)
        k = 0
        for fi in range(nf):
            evs = []
            for _ in range(rng.randint(1, 4)):
                dt = D.date(2001, rng.randint(1, 12), rng.randint(1, 28))
                r = rule_for(rng, True)
                r["count"] = r.get("count") or 30
                evs.append(("f%d@verif" % k, dt, [r], None))
                k += 1
            fn = os.path.join(d, "f%d.ics" % fi)
            open(fn, "w").write(vcal([vevent(u, dt, rules) for (u, dt, rules, rd) in evs]))
            files.append(fn)
            allev += evs
        part.evaluations += 1
        p = subprocess.run([cli, "unroll", "--format", "%b %u", "--till", "2037-12-30"] + files, stdout=subprocess.PIPE,
                           stderr=subprocess.PIPE, env=env, timeout=120)
        merged = [tuple(l.split()) for l in p.stdout.decode().split("\n") if l.strip()]
        singles = []
        for (u, dt, rules, rd) in allev:
            fn = os.path.join(d, "single.ics")
            open(fn, "w").write(vcal([vevent(u, dt, rules)]))
            q = subprocess.run([cli, "unroll", "--format", "%b %u", "--till", "2037-12-30", fn], stdout=subprocess.PIPE,
                               stderr=subprocess.PIPE, env=env, timeout=120)
            singles += [tuple(l.split()) for l in q.stdout.decode().split("\n") if l.strip()]
        if sorted(merged) != sorted(set(singles)):
            part.violation("cli-files/multiset", {"input": [open(f).read() for f in files],
                                                  "summary": "echse unroll of %d files delivers %d lines, the union of the events alone has %d"
                                                  % (nf, len(merged), len(set(singles)))})
        elif [m[0] for m in merged] != sorted(m[0] for m in merged):
            part.violation("cli-files/not-chronological", {"input": [open(f).read() for f in files], "summary": "CLI output not sorted"})
        else:
            part.nontrivial.add("cli/files%d" % nf)
    finally:
        import shutil
        shutil.rmtree(d, ignore_errors=True)


def worker(args):
    root, seed, tier, wid, nw, ncases = args
    part = Part()
    srv = CaseServer(build.exe(root, "asan", "h_strm"), wall_timeout=120)
    rng = rng_for(seed, PROP, wid)
    try:
        for k in range(ncases):
            try:
                run_case(srv, part, rng, tier)
            except HarnessCrash as e:
                part.violation("crash-" + e.kind, {"summary": e.detail[:800]})
            if k % 25 == 0:
                cli_case(part, rng, root)
    finally:
        srv.close()
    return part.export()


def main(tier):
    root = build_or_die()
    run = Run(PROP, tier)
    total = 8000 if tier == "quick" else 100000
    for p in pmap(worker, [(root, run.seed, tier, w, NCPU, total // NCPU) for w in range(NCPU)]):
        run.merge(p)
    run.cov["rule"] = ("calendars of 1..12 events x 0..6 RRULEs (+RDATE) per event with ties (same instant different UID, same "
                       "instant same UID from two rules), empty and early-ending constituents, driven by schedules over "
                       "{peek, pop, clone}: p*, (np)*, n^k p, random, with clones; online: non-decreasing, pop == preceding peek, "
                       "peeks idempotent; offline: delivered multiset == union of the constituents unrolled alone with (uid,start) "
                       "collapsed, end only after all constituents ended; plus echse unroll of 2-4 files; "
                       "distinct = (k, tie class, #early-ending constituents, schedule shape)")
    run.assumptions = ["constituents are duplicate-free by construction except for deliberately identical rules of one event",
                       "for unbounded constituents the comparison stops strictly below the earliest horizon"]
    return run.finish(min_eval=total // 2, min_nontrivial=30)


def replay(path):
    w = json.load(open(path))
    root = build_or_die()
    srv = CaseServer(build.exe(root, "asan", "h_strm"))
    try:
        lines = srv.case("sched=%s budget=15000" % w["sched"], w["input"])
    finally:
        srv.close()
    fails, popped = monitor(parse_calls(lines))
    print(w["input"])
    print("online monitor:", fails[:5], "| recorded:", w["key"], w.get("detail"))
    return 1 if fails or True else 0

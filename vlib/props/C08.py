"""C08 -- instant arithmetic and epoch conversions agree with the calendar.
Oracle: proleptic Gregorian day numbers from datetime.date.toordinal, seconds via integer arithmetic."""
import datetime
import json
import os

from .. import build
from ..common import (Run, Part, LineServer, CaseServer, HarnessCrash, pmap, rng_for, build_or_die, NCPU, I, unI, fmtI)

PROP = "C08"
ALLSEC = 0x3ff
MSD = 86400000
ORD0 = datetime.date(1901, 1, 1).toordinal()
ORD1 = datetime.date(2099, 12, 31).toordinal()
EPOCH_ORD = datetime.date(1970, 1, 1).toordinal()

_cache = {}


def ymd(o):
    r = _cache.get(o)
    if r is None:
        d = datetime.date.fromordinal(o)
        r = _cache[o] = (d.year, d.month, d.day)
    return r


def inst_at(o, H=0xff, M=0, S=0, ms=0):
    y, m, d = ymd(o)
    return I(y, m, d, H, M, S, ms)


def abs_ms(u):
    """milliseconds since 0001-01-01 for a normalised instant; all-day = start of day, all-sec = .000"""
    y, m, d, H, M, S, ms = unI(u)
    o = datetime.date(y, m, d).toordinal()
    if H == 0xff:
        return o * MSD
    return o * MSD + ((H * 60 + M) * 60 + S) * 1000 + (0 if ms == ALLSEC else ms)


def from_abs(t, like):
    """instant of the same kind as `like` at absolute ms t"""
    y0, m0, d0, H, M, S, ms = unI(like)
    o, r = divmod(t, MSD)
    y, m, d = ymd(o)
    if H == 0xff:
        return (like & 0xffffffff) | (I(y, m, d, 0, 0, 0, 0) & ~0xffffffff)
    s, msr = divmod(r, 1000)
    mi, se = divmod(s, 60)
    h, mi = divmod(mi, 60)
    return I(y, m, d, h, mi, se, ALLSEC if ms == ALLSEC else msr)


def dclass(dms):
    a = abs(dms)
    sign = "neg" if dms < 0 else ("zero" if dms == 0 else "pos")
    if a < MSD:
        mag = "lt1d"
    elif a < 2 ** 31:
        mag = "lt24.8d"
    elif a < 2 ** 32:
        mag = "lt49.7d"
    elif a < 366 * MSD:
        mag = "lt1y"
    else:
        mag = "years"
    return sign + "/" + mag


def kind(u):
    H, ms = (u >> 24) & 0xff, u & 0x3ff
    return "allday" if H == 0xff else ("allsec" if ms == ALLSEC else "ms")


def feat(u):
    y, m, d = unI(u)[:3]
    if (m, d) == (2, 29):
        return "leapday"
    if d >= 28 or d == 1:
        return "month-edge"
    return "mid"


class Batch:
    def __init__(self, srv, part):
        self.srv, self.part = srv, part
        self.cmds, self.chk = [], []

    def add(self, cmd, fn):
        self.cmds.append(cmd)
        self.chk.append(fn)
        if len(self.cmds) >= 20000:
            self.flush()

    def flush(self):
        if not self.cmds:
            return
        cmds, chk = self.cmds, self.chk
        self.cmds, self.chk = [], []
        try:
            ans = self.srv.batch(cmds)
        except HarnessCrash as e:
            self.part.violation("crash-" + e.kind, {"input": e.partial, "summary": e.detail[:800]})
            return
        for a, f in zip(ans, chk):
            self.part.evaluations += 1
            f(a)


def exp_diff(part, a, b, got, tag):
    exp = abs_ms(a) - abs_ms(b)
    sig = "diff/%s/%s" % (kind(a) if kind(a) == kind(b) or "allday" in (kind(a), kind(b)) else "ms-and-allsec", dclass(exp))
    part.nontrivial.add(sig + "/" + feat(a))
    if got != exp:
        part.violation(sig, {"input": {"end": fmtI(a), "beg": fmtI(b)}, "observed": got, "expected": exp,
                             "summary": "diff(%s, %s) = %d ms, true elapsed time %d ms" % (fmtI(a), fmtI(b), got, exp)})


def exp_add(part, b, d, got, tag="add"):
    exp = from_abs(abs_ms(b) + d, b)
    sig = "%s/%s/%s" % (tag, kind(b), dclass(d))
    part.nontrivial.add(sig + "/" + feat(exp))
    if got != exp:
        part.violation(sig, {"input": {"base": fmtI(b), "add_ms": d}, "observed": fmtI(got), "expected": fmtI(exp),
                             "summary": "add(%s, %d ms) = %s, calendar says %s" % (fmtI(b), d, fmtI(got), fmtI(exp))})
    elif len(part.samples) < 2:
        part.sample({"op": tag, "base": fmtI(b), "ms": d, "result": fmtI(got)})


def day_level(B, part, ords, rng):
    bases = [datetime.date(1901, 1, 1).toordinal(), datetime.date(1970, 1, 1).toordinal(),
             datetime.date(2000, 2, 29).toordinal(), datetime.date(2038, 1, 19).toordinal(),
             datetime.date(2099, 12, 31).toordinal(), datetime.date(1999, 12, 31).toordinal()]
    ks = [1, 27, 28, 29, 30, 31, 32, 49, 50, 58, 59, 60, 61, 62, 365, 366, 1461, 20000, 72000]
    for o in ords:
        ad = inst_at(o)
        tm = inst_at(o, 12, 30, 15, ALLSEC)
        for bo in bases:
            bd = inst_at(bo)
            bt = inst_at(bo, 12, 30, 15, ALLSEC)
            B.add("diff %x %x" % (ad, bd), lambda a, x=ad, y=bd: exp_diff(part, x, y, int(a), "day"))
            B.add("diff %x %x" % (tm, bt), lambda a, x=tm, y=bt: exp_diff(part, x, y, int(a), "day"))
            dd = (o - bo) * MSD
            B.add("add %x %d" % (bd, dd), lambda a, x=bd, y=dd: exp_add(part, x, y, int(a, 16)))
            B.add("add %x %d" % (bt, dd), lambda a, x=bt, y=dd: exp_add(part, x, y, int(a, 16)))
        for k in ks:
            for sg in (1, -1):
                o2 = o + sg * k
                if not (ORD0 <= o2 <= ORD1):
                    continue
                dd = sg * k * MSD
                B.add("add %x %d" % (ad, dd), lambda a, x=ad, y=dd: exp_add(part, x, y, int(a, 16)))
                B.add("add %x %d" % (tm, dd), lambda a, x=tm, y=dd: exp_add(part, x, y, int(a, 16)))
    B.flush()


def second_level(B, part, ords, rng):
    """month boundaries / leap days at second and ms resolution, add <-> diff inverse"""
    times = [(0, 0, 0), (23, 59, 59), (12, 0, 0), (0, 0, 1), (23, 59, 0)]
    durs = [1, 999, 1000, 1001, 59999, 60000, 3599999, 3600000, MSD - 1, MSD, MSD + 1,
            2 ** 31 - 1, 2 ** 31, 2 ** 32 - 1, 2 ** 32, 2 ** 32 + 1, 50 * MSD + 777, 400 * MSD + 1]
    for o in ords:
        for (H, M, S) in times:
            for ms in (0, 1, 999, ALLSEC):
                a = inst_at(o, H, M, S, ms)
                ds = durs + [rng.randrange(1, 3000 * MSD) for _ in range(3)]
                for d in ds:
                    if ms == ALLSEC:
                        d = d - d % 1000
                    for sg in (1, -1):
                        t = abs_ms(a) + sg * d
                        if not (ORD0 * MSD <= t < (ORD1 + 1) * MSD):
                            continue
                        B.add("add %x %d" % (a, sg * d), lambda r, x=a, y=sg * d: exp_add(part, x, y, int(r, 16)))
                        b = from_abs(t, a)
                        B.add("diff %x %x" % (b, a), lambda r, x=b, y=a: exp_diff(part, x, y, int(r), "sec"))
                        if sg > 0 and d in durs[:12]:
                            # one operand to the second, the other to the millisecond (DTSTART:...T120000.500Z with a
                            # whole-second DTEND): a whole second is its .000
                            b2 = (b & ~0x3ff) | (rng.choice([0, 500, 999]) if ms == ALLSEC else ALLSEC)
                            B.add("diff %x %x" % (b2, a), lambda r, x=b2, y=a: exp_diff(part, x, y, int(r), "mixed"))
    B.flush()


def fixups(B, part, months, rng):
    def expect(y, m, d, H, M, S, ms, allsec):
        yy = y + (m - 1) // 12
        mm = (m - 1) % 12 + 1
        o = datetime.date(yy, mm, 1).toordinal() + d - 1
        if H == 0xff:
            yy, mm, dd = ymd(o)
            return I(yy, mm, dd, 0xff, M, S, ms)
        t = o * MSD + ((H * 60 + M) * 60 + S) * 1000 + (0 if allsec else ms)
        oo, r = divmod(t, MSD)
        yy, mm, dd = ymd(oo)
        s, msr = divmod(r, 1000)
        mi, se = divmod(s, 60)
        h, mi = divmod(mi, 60)
        return I(yy, mm, dd, h, mi, se, ALLSEC if allsec else msr)

    def chk(a, inp, exp, what):
        got = int(a, 16)
        part.nontrivial.add("fixup/" + what)
        if got != exp:
            part.violation("fixup/" + what, {"input": "%s (raw %x)" % (str(unI(inp)), inp), "observed": fmtI(got), "expected": fmtI(exp),
                                             "summary": "fixup of overflowed %s gives %s, same point in time is %s"
                                             % (str(unI(inp)), fmtI(got), fmtI(exp))})
    for (y, m) in months:
        for d in range(29, 41):
            for allday in (True, False):
                if allday:
                    inp = I(y, m, d, 0xff, 0, 0, 0)
                    exp = expect(y, m, d, 0xff, 0, 0, 0, False)
                else:
                    inp = I(y, m, d, 10, 20, 30, ALLSEC)
                    exp = expect(y, m, d, 10, 20, 30, 0, True)
                B.add("fix %x" % inp, lambda a, i=inp, e=exp: chk(a, i, e, "day-overflow"))
        dl = [1, 15, 28, 29, 30, 31]
        import calendar
        last = calendar.monthrange(y, m)[1]
        for d in (1, last):
            for H in (24, 25, 47):
                inp = I(y, m, d, H, 59, 59, 999)
                B.add("fix %x" % inp, lambda a, i=inp, e=expect(y, m, d, H, 59, 59, 999, False): chk(a, i, e, "hour-overflow"))
            for M in (60, 61, 119):
                inp = I(y, m, d, 23, M, 59, ALLSEC)
                B.add("fix %x" % inp, lambda a, i=inp, e=expect(y, m, d, 23, M, 59, 0, True): chk(a, i, e, "minute-overflow"))
            for S in (60, 61, 63):
                inp = I(y, m, d, 23, 59, S, 0)
                B.add("fix %x" % inp, lambda a, i=inp, e=expect(y, m, d, 23, 59, S, 0, False): chk(a, i, e, "second-overflow"))
            for ms in (1000, 1001, 1022):
                inp = I(y, m, d, 23, 59, 59, ms)
                B.add("fix %x" % inp, lambda a, i=inp, e=expect(y, m, d, 23, 59, 59, ms, False): chk(a, i, e, "ms-overflow"))
        if y <= 2096 and (m == 12 or rng.random() < 0.1):
            for mm in (13, 14, 24, 25):
                inp = I(y, mm, 31, 12, 0, 0, ALLSEC)
                B.add("fix %x" % inp, lambda a, i=inp, e=expect(y, mm, 31, 12, 0, 0, 0, True): chk(a, i, e, "month-overflow"))
    B.flush()


def epochs(B, part, ords):
    for o in ords:
        for (H, M, S) in ((0, 0, 0), (12, 0, 0), (23, 59, 59)):
            i = inst_at(o, H, M, S, ALLSEC)
            t = (o - EPOCH_ORD) * 86400 + (H * 60 + M) * 60 + S

            def c1(a, i=i, t=t):
                part.nontrivial.add("to_epoch/%s/%s" % ("pre1970" if t < 0 else "post1970", "janfeb" if unI(i)[1] <= 2 else "mar-dec"))
                if int(a) != t:
                    part.violation("to_epoch/%s/%s" % ("pre1970" if t < 0 else "post1970", "janfeb" if unI(i)[1] <= 2 else "mar-dec"),
                                   {"input": fmtI(i), "observed": int(a), "expected": t,
                                    "summary": "echs_instant_to_epoch(%s) = %s, unix time is %d" % (fmtI(i), a, t)})

            def c2(a, i=i, t=t):
                got = int(a, 16)
                part.nontrivial.add("from_epoch/%s" % ("pre1970" if t < 0 else "post1970"))
                if (got >> 10) != (i >> 10):
                    part.violation("from_epoch/%s" % ("pre1970" if t < 0 else "post1970"),
                                   {"input": t, "observed": fmtI(got), "expected": fmtI(i),
                                    "summary": "epoch_to_echs_instant(%d) = %s, calendar says %s" % (t, fmtI(got), fmtI(i))})
                elif (got & 0x3ff) not in (ALLSEC, 0):
                    part.violation("from_epoch/subsecond-garbage",
                                   {"input": t, "observed": fmtI(got), "expected": fmtI(i),
                                    "summary": "epoch_to_echs_instant(%d) = %s carries a millisecond part out of thin air" % (t, fmtI(got))})
            B.add("2ep %x" % i, c1)
            B.add("ep2 %d" % t, c2)
    B.flush()


def compares(B, part, rng):
    pool = []
    for _ in range(12):
        o = rng.randint(ORD0, ORD1)
        pool.append(inst_at(o))
        pool.append(inst_at(o, 0, 0, 0, ALLSEC))
        pool.append(inst_at(o, 0, 0, 0, 0))
        pool.append(inst_at(o, 0, 0, 0, 1))
        pool.append(inst_at(o, 23, 59, 59, 999))
        pool.append(inst_at(o, rng.randint(0, 23), rng.randint(0, 59), rng.randint(0, 59), ALLSEC))
        pool.append(inst_at(o + 1))

    def key(u):
        y, m, d, H, M, S, ms = unI(u)
        return (y, m, d, (H + 1) & 0xff, M, S, (ms + 1) & 0x3ff)
    for a in pool:
        for b in pool:
            ka, kb = key(a), key(b)
            exp = "%d%d%d" % (ka < kb, ka <= kb, a == b)

            def c(r, a=a, b=b, exp=exp):
                part.nontrivial.add("cmp/%s-%s" % (kind(a), kind(b)))
                if r != exp:
                    part.violation("cmp/%s-%s" % (kind(a), kind(b)),
                                   {"input": [fmtI(a), fmtI(b)], "observed": r, "expected": exp,
                                    "summary": "lt/le/eq(%s, %s) = %s expected %s" % (fmtI(a), fmtI(b), r, exp)})
            B.add("cmp %x %x" % (a, b), c)
    B.flush()


def worker(args):
    root, seed, tier, wid, nw = args
    part = Part()
    srv = LineServer(build.exe(root, "asan" if wid == 0 else "plain", "h_lib"), wall_timeout=600)
    rng = rng_for(seed, PROP, wid)
    B = Batch(srv, part)
    try:
        allords = list(range(ORD0, ORD1 + 1))
        mine = allords[wid::nw]
        day_level(B, part, mine, rng)
        part.count("days_swept", len(mine))
        # month boundaries and leap days for the second/ms level
        edges = [o for o in allords if ymd(o)[2] == 1 or ymd(o + 1)[2] == 1 or ymd(o)[1:] == (2, 28)]
        if tier == "quick":
            edges = [o for k, o in enumerate(edges) if k % 20 == (seed + 7 * wid) % 20 or ymd(o)[1:] == (2, 29)]
        second_level(B, part, edges[wid::nw], rng)
        months = sorted({ymd(o)[:2] for o in allords})
        fixups(B, part, months[wid::nw], rng)
        epochs(B, part, mine)
        compares(B, part, rng)
    finally:
        srv.close()
    return part.export()


def tstamp_worker(args):
    """the daemon's own conversion (static in echsd.c), through the echsd harness if it is built"""
    root, seed, tier = args
    part = Part()
    exe = build.exe(root, "asan", "h_echsd")
    if not os.path.exists(exe):
        return part.export()
    srv = CaseServer(exe)
    try:
        ords = list(range(ORD0, ORD1 + 1))
        body = []
        want = []
        for o in ords:
            for (H, M, S) in ((0xff, 0, 0), (0, 0, 0), (23, 59, 59)):
                i = inst_at(o, H, M, S, ALLSEC if H != 0xff else 0)
                body.append("%x" % i)
                t = (o - EPOCH_ORD) * 86400 + (0 if H == 0xff else (H * 60 + M) * 60 + S)
                want.append((i, t))
        lines = srv.case("mode=tstamp", "\n".join(body) + "\n")
        vals = [l for l in lines if l.startswith("TS ")]
        for (i, t), l in zip(want, vals):
            part.evaluations += 1
            got = float(l.split()[1])
            y = unI(i)[0]
            cls = "pre2001" if y < 2001 else "2001+"
            part.nontrivial.add("tstamp/" + cls + "/" + kind(i))
            if got != float(t):
                part.violation("tstamp/" + cls, {"input": fmtI(i), "observed": got, "expected": t,
                                                 "summary": "echsd arms %s at unix time %.0f, the calendar says %d" % (fmtI(i), got, t)})
        if len(vals) != len(want):
            part.fatal = "tstamp: %d answers for %d questions" % (len(vals), len(want))
    except HarnessCrash as e:
        part.violation("tstamp/crash-" + e.kind, {"summary": e.detail[:800]})
    finally:
        srv.close()
    return part.export()


def main(tier):
    root = build_or_die()
    run = Run(PROP, tier)
    jobs = [(worker, (root, run.seed, tier, w, NCPU)) for w in range(NCPU)]
    for p in pmap(_dispatch, jobs + [(tstamp_worker, (root, run.seed, tier))], procs=NCPU + 1):
        run.merge(p)
    run.cov["rule"] = ("day level complete: every day 1901..2099 x {diff to 6 bases, add from 6 bases, +-k days for 19 k} for "
                       "all-day and timed instants; second/ms level at %s month boundary and 28/29 Feb with 21 durations up to "
                       "years, both signs, add<->diff inverse; fixup of every single-field overflow per month; epoch conversions "
                       "of every day at 3 times both ways and the daemon's wake-up stamp; ordering predicates on a pool; "
                       "distinct = (operation, instant kind, sign/magnitude class, calendar feature) classes observed"
                       % ("every" if tier != "quick" else "every 20th"))
    run.cov["exhaustive"] = True
    run.cov["exhaustive_scope"] = "the day-level part and the epoch part"
    run.assumptions = ["all-day instants move by whole days only; whole-second (ms=all) instants by whole seconds only",
                       "worker 0 runs the ASan+UBSan build, the others the plain build (throughput)"]
    return run.finish(min_eval=500000, min_nontrivial=40)


def _dispatch(a):
    fn, args = a
    return fn(args)


def replay(path):
    w = json.load(open(path))
    print(json.dumps({k: w.get(k) for k in ("key", "input", "observed", "expected")}, indent=1))
    print("re-running the sweep (finite, enumerated)")
    return main("quick")

"""C20 -- instant and event sorting is a stable ordering permutation.
Oracle: multiset equality + documented order + stability by serial (events)."""
import json

from .. import build
from ..common import (Run, Part, LineServer, HarnessCrash, pmap, rng_for, build_or_die, NCPU, I, unI)

PROP = "C20"


def key(u):
    y, m, d, H, M, S, ms = unI(u)
    return (y, m, d, (H + 1) & 0xff, M, S, (ms + 1) & 0x3ff)


def gen_instant(rng, pool):
    r = rng.random()
    if r < 0.15:
        # all-day
        y, m, d = pool["days"][rng.randrange(len(pool["days"]))]
        return I(y, m, d, 0xff, 0, 0, 0)
    y, m, d = pool["days"][rng.randrange(len(pool["days"]))]
    ms = rng.choice([0x3ff, 0x3ff, 0, 1, 500, 999])
    return I(y, m, d, rng.choice(pool["H"]), rng.choice(pool["M"]), rng.choice(pool["S"]), ms)


def make_array(rng, n, shape):
    ndays = {"few": 2, "equal": 1}.get(shape, rng.choice([3, 30, 3000]))
    pool = {"days": [(rng.randint(1901, 2099), rng.randint(1, 12), rng.randint(1, 28)) for _ in range(ndays)],
            "H": [0, 23, rng.randint(0, 23)], "M": [0, 59, rng.randint(0, 59)], "S": [0, 59, rng.randint(0, 59)]}
    if shape == "equal":
        v = gen_instant(rng, pool)
        return [v] * n
    if shape == "few":
        vals = [gen_instant(rng, pool) for _ in range(rng.randint(2, 5))]
        return [rng.choice(vals) for _ in range(n)]
    if shape == "fewruns":
        # a handful of constant runs, the larger values first: the in-place merge finds next to no distinct values
        vals = sorted({gen_instant(rng, pool) for _ in range(rng.randint(2, 4))}, key=key, reverse=True)
        cuts = sorted(rng.sample(range(1, max(2, n)), min(len(vals) - 1, max(0, n - 1)))) if n > 1 and len(vals) > 1 else []
        if rng.random() < 0.5 and len(vals) == 2 and n > 1:
            cuts = [n // 2]
        out, prev = [], 0
        for v, c in zip(vals, cuts + [n]):
            out += [v] * (c - prev)
            prev = c
        return out[:n] + [vals[-1]] * (n - len(out[:n]))
    if shape == "starved":
        # one half with next to no distinct values, the other a staircase of singles beside one long constant run: the
        # in-place merge must take its internal buffer from the far half and put it back afterwards
        vals = sorted({gen_instant(rng, pool) for _ in range(200)}, key=key)
        if len(vals) < 8 or n < 8:
            return [rng.choice(vals) for _ in range(n)]
        half = n // 2 + rng.choice([0, 0, 0, -1, 1, -n // 4, n // 4])
        k = min(rng.choice([5, 16, 22, 23, 24, 25, 32, 40, 64]), len(vals) - 2, max(1, (n - half) // 2))
        lo = rng.randrange(0, len(vals) - k)
        stairs = vals[lo:lo + k]
        rest = [v for v in vals if v not in stairs]
        run_v = rng.choice(rest)
        poor_v = rng.sample(rest, rng.choice([1, 1, 2, 3]))
        rich = []
        for v in stairs:
            rich += [v] * rng.choice([1, 1, 1, 2])
        fill = [run_v] * max(0, (n - half) - len(rich))
        rich = (rich + fill) if rng.random() < 0.7 else (fill + rich)
        rich = rich[:n - half]
        if rng.random() < 0.8:
            rich.sort(key=key)
        poor = sorted((rng.choice(poor_v) for _ in range(n - len(rich))), key=key)
        return (poor + rich) if rng.random() < 0.6 else (rich + poor)
    a = [gen_instant(rng, pool) for _ in range(n)]
    if shape == "random":
        return a
    s = sorted(a, key=key)
    if shape == "sorted":
        return s
    if shape == "reversed":
        return s[::-1]
    if shape == "oneswap":
        if n >= 2:
            i, j = rng.randrange(n), rng.randrange(n)
            s[i], s[j] = s[j], s[i]
        return s
    if shape == "sawtooth":
        k = max(1, rng.choice([2, 3, 7, 16, 33]))
        out = []
        for i in range(k):
            out += s[i::k]
        return out
    if shape == "blocks":
        # sorted runs of a length near the merge-block sizes
        k = rng.choice([4, 8, 16, 31, 32, 33, 64])
        out = []
        for i in range(0, n, k):
            out += sorted(a[i:i + k], key=key)
        return out
    return a


SHAPES = ["random", "sorted", "reversed", "few", "fewruns", "equal", "sawtooth", "oneswap", "blocks", "starved"]


def lenclass(n):
    if n <= 1:
        return "n%d" % n
    if n < 32:
        return "lt32"
    if n < 512:
        return "lt512"
    if n < 1024:
        return "lt1024"
    if n <= 4096:
        return "le4096"
    if n < 524288:
        return "big"
    return "huge"


def judge(kind, arr, ans):
    fails = []
    if kind == "i":
        got = [int(x, 16) for x in ans.split()] if ans.strip() else []
        if sorted(got) != sorted(arr):
            fails.append("not-a-permutation")
        ks = [key(u) for u in got]
        if any(ks[i] > ks[i + 1] for i in range(len(ks) - 1)):
            fails.append("not-sorted")
    else:
        got = []
        for tok in ans.split():
            f, oid, dur = tok.split(":")
            got.append((int(f, 16), int(oid), int(dur)))
        exp_multi = sorted((u, k + 1, k * 7) for k, u in enumerate(arr))
        if sorted(got) != exp_multi:
            fails.append("not-a-permutation")
        ks = [key(g[0]) for g in got]
        if any(ks[i] > ks[i + 1] for i in range(len(ks) - 1)):
            fails.append("not-sorted")
        if any(ks[i] == ks[i + 1] and got[i][1] > got[i + 1][1] for i in range(len(ks) - 1)):
            fails.append("unstable")
    return fails


def run_one(srv, part, kind, arr, shape):
    cmd = ("sorti" if kind == "i" else "sorte") + " %d " % len(arr) + " ".join("%x" % u for u in arr)
    sig = "%s/%s/%s" % (kind, lenclass(len(arr)), shape)
    part.evaluations += 1
    try:
        ans = srv.batch([cmd])[0]
    except HarnessCrash as e:
        part.violation(sig + "/crash-" + e.kind, {"input": {"kind": kind, "array": ["%x" % u for u in arr[:5000]], "n": len(arr)},
                                                  "summary": e.detail[:800]})
        return
    fails = judge(kind, arr, ans)
    if len(set(arr)) >= 2 or len(arr) <= 1:
        part.nontrivial.add(sig)
    for f in fails:
        part.violation(sig + "/" + f, {"input": {"kind": kind, "array": ["%x" % u for u in arr[:5000]], "n": len(arr)},
                                       "observed": ans[:4000],
                                       "summary": "sort of %d %s (%s shape): %s" % (len(arr), "instants" if kind == "i" else "events", shape, f)})
    if not fails and len(arr) in (3, 5):
        part.sample({"kind": kind, "shape": shape, "input": ["%x" % u for u in arr], "output": ans}, cap=1)


def lengths(tier):
    ls = list(range(0, 301))
    for k in range(5, 13):
        for base in (1 << k, 3 << (k - 1)):
            ls += [base + d for d in range(-3, 4)]
    ls += [511, 512, 513, 514, 1023, 1024, 1025, 1026, 2047, 2048, 2049, 4095, 4096]
    return sorted(set(l for l in ls if 0 <= l <= 4096))


def worker(args):
    root, seed, tier, wid, nw = args
    part = Part()
    srv = LineServer(build.exe(root, "asan", "h_lib"), wall_timeout=300)
    plain = LineServer(build.exe(root, "plain", "h_lib"), wall_timeout=600)
    rng = rng_for(seed, PROP, wid)
    try:
        jobs = []
        reps = 1 if tier == "quick" else 6
        for n in lengths(tier):
            for shape in SHAPES:
                for kind in ("i", "e"):
                    for _ in range(reps):
                        jobs.append((n, shape, kind))
        extra = 60 if tier == "quick" else 3000
        for _ in range(extra * nw):
            jobs.append((rng.randint(301, 4096), rng.choice(SHAPES), rng.choice("ie")))
        rng2 = rng_for(seed, PROP, "shuffle")
        rng2.shuffle(jobs)
        for n, shape, kind in jobs[wid::nw]:
            run_one(srv, part, kind, make_array(rng, n, shape), shape)
        if tier != "quick":
            # reach the two-internal-buffer path (block size > cache of 512): > 524288 elements
            big = [(100000, "random"), (300000, "few"), (600000, "random"), (600000, "sawtooth"),
                   (550000, "few"), (600000, "oneswap"), (530000, "reversed"), (600000, "blocks")]
            for n, shape in big[wid::nw]:
                run_one(plain, part, rng.choice("ie"), make_array(rng, n, shape), shape)
                part.count("huge_arrays")
    finally:
        srv.close()
        plain.close()
    return part.export()


def main(tier):
    root = build_or_die()
    run = Run(PROP, tier)
    for p in pmap(worker, [(root, run.seed, tier, w, NCPU) for w in range(NCPU)]):
        run.merge(p)
    run.cov["rule"] = ("arrays of every length 0..300 and around 2^k, 3*2^k, 511..514, 1023..1026, 4096 x 10 shapes "
                       "(random, sorted, reversed, few keys, few runs, all equal, sawtooth, one swap, sorted blocks, one half starved of distinct keys) x "
                       "{instants, events with serial oids}; distinct = (kind, length class, shape) with >=2 distinct keys")
    run.assumptions = ["documented order = echs_instant_lt_p's: all-day before timed of the same day, all-second before ms 0",
                       "stability is observable for events only (serial in oid); instants that compare equal are identical"]
    return run.finish(min_eval=3000, min_nontrivial=40)


def replay(path):
    w = json.load(open(path))
    root = build_or_die()
    srv = LineServer(build.exe(root, "asan", "h_lib"))
    arr = [int(x, 16) for x in w["input"]["array"]]
    kind = w["input"]["kind"]
    part = Part()
    run_one(srv, part, kind, arr, "replay")
    srv.close()
    if part.viol:
        print("VIOLATION property=%s replay=%s\n  %s" % (PROP, path, list(part.viol)))
        return 1
    print("held on replayed input")
    return 0

"""C02 -- EXDATE/EXRULE remove, RDATE adds (recurrence-set algebra).
Metamorphic oracle: expected = (R u RDATE) - {o : start(o) in EXDATE u X} where R and X are echse's
own expansions of the same event with the exception lines stripped resp. the EXRULE taken as RRULE,
so C01 defects cannot leak in."""
import datetime as D
import json

from .. import build, rfc5545, rulegen, evgen
from ..common import (Run, Part, CaseServer, HarnessCrash, pmap, rng_for, build_or_die, NCPU)
from .C01 import parse_occ

PROP = "C02"


def fmt(x, z=True):
    if isinstance(x, D.datetime):
        return x.strftime("%Y%m%dT%H%M%S") + ("Z" if z else "")
    return x.strftime("%Y%m%d")


OTHER_ZONES = ["Europe/London", "Europe/Berlin", "America/New_York", "America/Los_Angeles", "Asia/Tokyo", "Australia/Sydney", "Asia/Kolkata"]


def in_zone(values, zone):
    """the UTC datetimes as wall-clock times of ZONE, or None unless every one of them exists exactly once there"""
    import zoneinfo
    z = zoneinfo.ZoneInfo(zone)
    out = []
    for u in values:
        if not (1902 <= u.year <= 2037):
            return None
        loc = u.replace(tzinfo=D.timezone.utc).astimezone(z).replace(tzinfo=None)
        a = loc.replace(tzinfo=z, fold=0).astimezone(D.timezone.utc).replace(tzinfo=None)
        b = loc.replace(tzinfo=z, fold=1).astimezone(D.timezone.utc).replace(tzinfo=None)
        if a != u or b != u:
            return None
        out.append(loc)
    return out


def date_line(rng, prop, chunk, c, part):
    """PROP:v1,v2,... in UTC form, or (sometimes) with a TZID of its own that differs from the event's"""
    if c["is_date"]:
        return prop + ";VALUE=DATE:" + ",".join(fmt(x) for x in chunk)
    if rng.random() < 0.2:
        # as dates, which take DTSTART's wall-clock time in DTSTART's zone: possible when every value has that time of day
        loc = in_zone(chunk, c["tzid"]) if c["tzid"] else chunk
        if loc is not None and all(x.time() == c["dtstart"].time() for x in loc):
            part.count("date_valued_lines_in_timed_events")
            return prop + ";VALUE=DATE:" + ",".join(x.strftime("%Y%m%d") for x in loc)
    if rng.random() < 0.3:
        zone = rng.choice([z for z in OTHER_ZONES if z != c["tzid"]])
        loc = in_zone(chunk, zone)
        if loc is not None:
            part.count("lines_with_a_zone_of_their_own")
            return "%s;TZID=%s:%s" % (prop, zone, ",".join(fmt(x, z=False) for x in loc))
    return prop + ":" + ",".join(fmt(x) for x in chunk)


def simple_rule(rng, is_date):
    f = rng.choice(["DAILY", "DAILY", "WEEKLY", "MONTHLY", "HOURLY" if not is_date else "DAILY"])
    r = {"freq": f, "interval": rng.choice([1, 1, 1, 2, 3])}
    if f == "WEEKLY" and rng.random() < 0.6:
        r["byday"] = [(0, w) for w in sorted(rng.sample(range(7), rng.randint(1, 3)))]
    if f == "MONTHLY" and rng.random() < 0.5:
        r["bymonthday"] = sorted(rng.sample(range(1, 29), rng.randint(1, 3)))
    if f == "DAILY" and not is_date and rng.random() < 0.3:
        r["byhour"] = sorted(rng.sample(range(24), rng.randint(1, 3)))
    return r


def gap_seconds(r, is_date):
    f = r["freq"]
    if f == "HOURLY":
        return 3600 * r["interval"]
    if f == "DAILY":
        if r.get("byhour") and len(r["byhour"]) > 1:
            hs = r["byhour"]
            return min(b - a for a, b in zip(hs, hs[1:])) * 3600
        return 86400 * r["interval"]
    if f == "WEEKLY":
        return 86400          # consecutive BYDAY days
    return 86400              # consecutive month days


def event(uid, dtline, lines):
    return "BEGIN:VCALENDAR\nVERSION:2.0\nBEGIN:VEVENT\nUID:%s\nSUMMARY:x\n%s\n%s\nEND:VEVENT\nEND:VCALENDAR\n" % (
        uid, dtline, "\n".join(l for l in lines if l))


def make_case(rng):
    is_date = rng.random() < 0.35
    tzid = None if is_date or rng.random() < 0.75 else rng.choice(["Europe/Berlin", "America/New_York", "Asia/Kathmandu"])
    d0 = D.date(rng.randint(1971, 2030), rng.randint(1, 12), rng.randint(1, 28))
    dtstart = d0 if is_date else D.datetime.combine(d0, D.time(rng.choice([0, 9, 12, 23]), rng.choice([0, 30, 59]), rng.choice([0, 0, 59])))
    r = simple_rule(rng, is_date)
    if rng.random() < 0.3:
        r["count"] = rng.choice([5, 20, 63, 64, 65, 100])
    if is_date:
        dtline = "DTSTART;VALUE=DATE:" + fmt(dtstart)
    elif tzid:
        dtline = "DTSTART;TZID=%s:%s" % (tzid, fmt(dtstart, z=False))
    else:
        dtline = "DTSTART:" + fmt(dtstart)
    # duration
    gap = gap_seconds(r, is_date)
    durcls = rng.choice(["none", "none", "zero", "1s", "half", "gap-1"])
    durline = ""
    if is_date:
        durcls = rng.choice(["none", "none", "zero", "1d-dtend"]) if gap >= 2 * 86400 else rng.choice(["none", "none", "zero"])
        if durcls == "zero":
            durline = "DURATION:P0D"
        elif durcls == "1d-dtend":
            durline = "DTEND;VALUE=DATE:" + fmt(dtstart + D.timedelta(days=1))
    else:
        secs = {"none": None, "zero": 0, "1s": 1, "half": gap // 2, "gap-1": gap - 1}[durcls]
        if secs is not None:
            if rng.random() < 0.3 and secs > 0 and not tzid:
                durline = "DTEND:" + fmt(dtstart + D.timedelta(seconds=secs))
                durcls += "-dtend"
            else:
                durline = "DURATION:PT%dS" % secs
    return {"is_date": is_date, "tzid": tzid, "dtstart": dtstart, "rule": r, "dtline": dtline, "durline": durline,
            "durcls": durcls, "gap": gap}


def pop(srv, text, n):
    try:
        lines = srv.case("n=%d budget=10000" % n, text)
    except HarnessCrash as e:
        e.text = text
        raise
    return parse_occ(lines)


def run_case(srv, part, rng, tier):
    c = make_case(rng)
    rule_text = rfc5545.rule_text(c["rule"])
    uid = "c02@verif"
    N = rng.choice([30, 80, 140])
    base = event(uid, c["dtline"], [c["durline"], "RRULE:" + rule_text])
    part.evaluations += 1
    R, r_ended, _ = pop(srv, base, N)
    if len(R) < 4 or any(isinstance(x, tuple) for x in R):
        part.inconclusive.append({"why": "base stream too short", "rule": rule_text})
        return
    step = D.timedelta(days=1) if c["is_date"] else D.timedelta(seconds=1)
    W = R[-1]
    # --- exceptions
    exd = []
    hits, misses = 0, 0
    mode = rng.choice(["first", "run", "scatter", "last", "before", "mixed"])
    if mode == "first":
        exd.append(R[0])
    elif mode == "run":
        k = rng.randrange(0, max(1, len(R) - 10))
        exd += R[k:k + rng.randint(2, 10)]
    elif mode == "last":
        exd += [R[-1], R[-2]]
    elif mode == "before":
        exd.append(R[0] - 3 * step if not c["is_date"] else R[0] - D.timedelta(days=3))
        exd.append(R[1])
    else:
        exd += rng.sample(R, min(len(R), rng.randint(1, 40)))
    # instants that are no occurrence: between two occurrences, inside an occurrence's duration
    nm = rng.choice([0, 1, 2, 5])
    for _ in range(nm):
        k = rng.randrange(len(R) - 1)
        a, b = R[k], R[k + 1]
        if c["is_date"]:
            cand = a + D.timedelta(days=1)
        else:
            cand = a + rng.choice([D.timedelta(seconds=1), (b - a) / 2 - (((b - a) / 2) % D.timedelta(seconds=1))])
        if cand not in R and cand < b:
            exd.append(cand)
    Rset = set(R)
    hits = len({x for x in exd if x in Rset})
    misses = len({x for x in exd if x not in Rset})
    rng.shuffle(exd)
    # one line or several
    nlines = rng.choice([1, 1, 2, 3]) if len(exd) > 1 else 1
    exlines = []
    per = (len(exd) + nlines - 1) // nlines
    for i in range(0, len(exd), max(1, per)):
        chunk = exd[i:i + per]
        exlines.append(date_line(rng, "EXDATE", chunk, c, part))
    # EXRULE: one to three of them, each open, counted or bounded by an UNTIL that sits on or next to an occurrence
    X = []
    xlines = []
    if rng.random() < 0.4:
        for _ in range(rng.choice([1, 1, 1, 2, 2, 3])):
            xr = simple_rule(rng, c["is_date"])
            t = rng.random()
            if t < 0.35:
                xr["count"] = rng.choice([3, 10, 40])
            elif t < 0.7:
                u = R[rng.randrange(len(R))]
                if not c["is_date"]:
                    u += D.timedelta(seconds=rng.choice([0, 0, 0, 1, -1]))
                xr["until"] = u
                part.count("exrules_with_until")
            xt = rfc5545.rule_text(xr)
            Xs, x_ended, _ = pop(srv, event(uid, c["dtline"], [c["durline"], "RRULE:" + xt]), 400)
            if any(isinstance(x, tuple) for x in Xs):
                return
            if not x_ended and Xs and Xs[-1] < W:
                W = Xs[-1]
            X += Xs
            xlines.append("EXRULE:" + xt)
        if len(xlines) > 1:
            part.count("events_with_several_exrules")
    xline = " ".join(xlines)
    # RDATE
    rd = []
    rdlines = []
    if rng.random() < 0.4:
        for _ in range(rng.randint(1, 8)):
            k = rng.randrange(len(R) - 1)
            a, b = R[k], R[k + 1]
            t = rng.random()
            if t < 0.25:
                rd.append(a)                     # duplicate of a rule instance
            elif c["is_date"]:
                if (b - a).days >= 2:
                    rd.append(a + D.timedelta(days=1))
            else:
                mid = a + D.timedelta(seconds=int((b - a).total_seconds() // 2))
                if a < mid < b:
                    rd.append(mid)
        if rd and rng.random() < 0.3:
            rd.append(rd[0])                     # duplicate within the list
        rng.shuffle(rd)
        if rd:
            nl = rng.choice([1, 1, 2])
            per = (len(rd) + nl - 1) // nl
            for i in range(0, len(rd), per):
                chunk = rd[i:i + per]
                rdlines.append(date_line(rng, "RDATE", chunk, c, part))
    if not exlines and not xline and not rdlines:
        return
    body = [c["durline"], "RRULE:" + rule_text] + exlines + xlines + rdlines
    rng.shuffle(body)
    full = event(uid, c["dtline"], body)
    G, g_ended, _ = pop(srv, full, len(R) + len(rd) + 5)
    if any(isinstance(x, tuple) for x in G):
        part.violation("invalid-instant", {"input": full, "summary": "invalid instant in stream"})
        return
    EX = set(exd) | set(X)
    universe = {x for x in (set(R) | set(rd)) if x <= W}
    expected = sorted(universe - EX)
    got = [x for x in G if x <= W]
    # if the full stream was cut by our pop limit before W, shrink the window
    if not g_ended and G and G[-1] < W:
        W = G[-1]
        expected = [x for x in expected if x <= W]
        got = [x for x in got if x <= W]
    sg, se = set(got), set(expected)
    nontriv = hits >= 1 and (misses >= 1 or xline or rdlines)
    sig = "%s/%s/%s%s%s/%s" % (c["rule"]["freq"], c["durcls"], "D%d" % min(len(exlines), 3) if exlines else "",
                               "X%d" % len(xlines) if xlines else "", "R" if rdlines else "", "date" if c["is_date"] else ("tz" if c["tzid"] else "utc"))
    if nontriv:
        part.nontrivial.add(sig)
    part.count("exceptions_hitting", hits)
    part.count("exceptions_missing", misses)
    cls = "%s/%s%s%s%s" % (c["durcls"], "exdate" if exlines else "", "x%d" % len(exlines) if len(exlines) > 1 else "",
                           "+exrule" if xline else "", "+rdate" if rdlines else "")
    wit = {"input": full, "base": base, "window_end": str(W), "exdates": [str(x) for x in exd][:50],
           "rdates": [str(x) for x in rd], "observed": [str(x) for x in got[:30]], "expected": [str(x) for x in expected[:30]]}
    delivered_excluded = sorted(sg & EX)
    if delivered_excluded:
        part.violation(cls + "/excluded-but-delivered",
                       dict(wit, summary="%s | %s%s: occurrence %s is named by an exception but delivered"
                            % (rule_text, c["durline"] or "no duration", " " + xline if xline else "", delivered_excluded[0])))
    dropped = sorted(se - sg)
    if dropped:
        part.violation(cls + "/dropped-without-exception",
                       dict(wit, summary="%s | %s: occurrence %s is named by no exception but missing"
                            % (rule_text, c["durline"] or "no duration", dropped[0])))
    extra = sorted(sg - universe)
    if extra:
        part.violation(cls + "/extra", dict(wit, summary="%s: %s is neither a rule instance nor an RDATE" % (rule_text, extra[0])))
    if len(got) != len(sg):
        part.violation(cls + "/duplicate", dict(wit, summary="%s: an instant is delivered twice" % rule_text))
    if not (delivered_excluded or dropped or extra) and len(part.samples) < 2:
        part.sample({"event": full.split("\n")[4:-3], "delivered": len(got), "removed": hits})


def worker(args):
    root, seed, tier, wid, nw, ncases = args
    part = Part()
    srv = CaseServer(build.exe(root, "asan", "h_strm"), wall_timeout=120)
    rng = rng_for(seed, PROP, wid)
    hangs = 0
    try:
        for _ in range(ncases):
            try:
                run_case(srv, part, rng, tier)
            except HarnessCrash as e:
                text = getattr(e, "text", "")
                if e.kind == "timeout":
                    # slow because instrumented, or really stuck?  ask the plain build with a large budget
                    p = CaseServer(build.exe(root, "plain", "h_strm"), wall_timeout=200)
                    try:
                        p.case("n=400 budget=60000", text)
                        part.inconclusive.append({"why": "over budget under ASan, terminates on the plain build", "input": text[:600]})
                    except HarnessCrash as e2:
                        hangs += 1
                        part.violation("hang" if e2.kind == "timeout" else "crash-" + e2.kind,
                                       {"input": text, "summary": "the event's stream does not answer within 10 s CPU (ASan) / 60 s CPU (plain): " + e2.detail[:200]})
                    finally:
                        p.close()
                    if hangs >= 2:
                        part.count("aborted_after_repeated_hangs")
                        break
                else:
                    part.violation("crash-" + e.kind, {"input": text, "summary": e.detail[:600]})
    finally:
        srv.close()
    return part.export()


def main(tier):
    root = build_or_die()
    run = Run(PROP, tier)
    total = 9600 if tier == "quick" else 120000
    for p in pmap(worker, [(root, run.seed, tier, w, NCPU, total // NCPU) for w in range(NCPU)]):
        run.merge(p)
    run.cov["rule"] = ("DAILY/WEEKLY/MONTHLY/HOURLY base rules (date, UTC, TZID) x duration {absent, zero, 1 s, gap/2, gap-1 s, DTEND} x "
                       "EXDATE lists (1..40 instants over 1-3 lines: first, consecutive runs, last, before the first, scattered, "
                       "instants that are no occurrence) x optional EXRULE x optional RDATE (between instances, duplicates); "
                       "expected set built from echse's own expansions of the stripped variants; non-trivial = >=1 exception hits "
                       "and >=1 misses or an EXRULE/RDATE is present; distinct = (FREQ, duration class, exception line shape, value type)")
    run.assumptions = ["exceptions are written in UTC form for TZID events so that no zone conversion enters the oracle",
                       "an RDATE-only event has exactly its RDATE instances (the statement anchors DTSTART to the RRULE)"]
    return run.finish(min_eval=total // 2, min_nontrivial=30)


def replay(path):
    w = json.load(open(path))
    root = build_or_die()
    srv = CaseServer(build.exe(root, "asan", "h_strm"))
    try:
        G, ended, _ = pop(srv, w["input"], 400)
    finally:
        srv.close()
    W = w["window_end"]
    got = [str(x) for x in G if str(x) <= W]
    print("event:\n" + w["input"])
    print("delivered:", got[:30])
    print("expected :", w["expected"])
    if got[:len(w["expected"])] != w["expected"]:
        print("VIOLATION property=%s replay=%s" % (PROP, path))
        return 1
    return 0

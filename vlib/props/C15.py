"""C15 -- Hijri <-> Gregorian scale conversion is a consistent bijection.
Oracle: internal consistency (round trip, successor, month length, weekday) + Python date for
Gregorian day numbers and weekdays; table coverage read from the data files of the tree."""
import datetime
import json
import os
import re

from .. import build
from ..common import (Run, Part, LineServer, HarnessCrash, pmap, rng_for, build_or_die, NCPU, I, unI, fmtI)

PROP = "C15"
NAMES = {0: "GREGORIAN", 1: "IA", 2: "IC", 3: "IIA", 4: "IIC", 5: "IIIA", 6: "IIIC", 7: "IVA", 8: "IVC",
         9: "UMMULQURA", 10: "DIYANET"}
TABLE = {9: "dat_ummulqura.c", 10: "dat_diyanet.c"}
MJD0 = datetime.date(1858, 11, 16).toordinal()   # table numbers are JDN - 2400000 (anchor: 1 Muharram 1356 AH = 1937-03-14 = 28607)
D0 = datetime.date(1901, 1, 1)
D1 = datetime.date(2099, 12, 31)


def table_cov(root, s):
    """(first covered mjd, first not covered mjd, first month index, number of covered months)"""
    txt = open(os.path.join(root, "src", TABLE[s])).read()
    body = txt[txt.index("{") + 1: txt.rindex("}")]
    body = re.sub(r"/\*.*?\*/", "", body, flags=re.S)
    nums = [int(x.rstrip("Uu")) for x in re.findall(r"\d+U?", body)]
    sm, mt = nums[0], nums[2:]
    return mt[0], mt[-1], sm, len(mt) - 1


def hmonth_index(y, m):
    return (y - 1) * 12 + (m - 1)


def worker(args):
    root, seed, tier, wid, nw = args
    part = Part()
    srv = LineServer(build.exe(root, "asan", "h_lib"), wall_timeout=300)
    try:
        ndays = (D1 - D0).days + 1
        per = (ndays + nw - 1) // nw
        lo, hi = wid * per, min(ndays, (wid + 1) * per + 1)   # one day overlap for the successor rule
        days = [D0 + datetime.timedelta(days=k) for k in range(lo, hi)]
        for s in range(1, 11):
            sweep(srv, part, root, s, days)
        greg(srv, part, days)
        if wid < 2:
            out_of_table(srv, part, root, 9 + wid)
    except HarnessCrash as e:
        part.violation("crash-" + e.kind, {"input": e.partial, "summary": e.detail[:800]})
    finally:
        srv.close()
    return part.export()


def sweep(srv, part, root, s, days):
    cov = table_cov(root, s) if s in TABLE else None
    # 1. g -> h
    tods = [(0xff, 0, 0, 0), (0, 0, 0, 0x3ff), (23, 59, 59, 0x3ff), (12, 30, 15, 500)]
    gs = []
    for i, dt in enumerate(days):
        t = tods[0] if i % 5 else tods[(i // 5) % 4]
        gs.append(I(dt.year, dt.month, dt.day, *t))
    ans = srv.batch(["resc %x 0 %d" % (g, s) for g in gs])
    hs = []
    for dt, g, a in zip(days, gs, ans):
        part.evaluations += 1
        u, sc = a.split()
        u = int(u, 16)
        mjd = dt.toordinal() - MJD0
        incov = cov is None or (cov[0] <= mjd < cov[1])
        if not incov:
            part.nontrivial.add("%s/out-of-table/g2h" % NAMES[s])
            if u != 0:
                part.violation("%s/out-of-table/g2h-not-rejected" % NAMES[s],
                               {"input": fmtI(g), "scale": NAMES[s], "observed": fmtI(u), "expected": "nul instant",
                                "summary": "Gregorian %s lies outside the %s table but is mapped to %s" % (fmtI(g), NAMES[s], fmtI(u))})
            hs.append(None)
            continue
        if u == 0 or int(sc) != s:
            part.violation("%s/g2h-nul" % NAMES[s], {"input": fmtI(g), "scale": NAMES[s], "observed": a,
                                                    "summary": "Gregorian %s not converted to %s: %s" % (fmtI(g), NAMES[s], a)})
            hs.append(None)
            continue
        hy, hm, hd = unI(u)[:3]
        if not (1 <= hm <= 12 and 1 <= hd <= 30):
            part.violation("%s/invalid-date" % NAMES[s],
                           {"input": fmtI(g), "scale": NAMES[s], "observed": fmtI(u),
                            "summary": "Gregorian %s maps to the impossible %s date %s" % (fmtI(g), NAMES[s], fmtI(u))})
            hs.append(None)
            continue
        if (u & 0xffffffff) != (g & 0xffffffff):
            part.violation("%s/time-of-day-changed" % NAMES[s], {"input": fmtI(g), "observed": fmtI(u),
                                                                "summary": "time of day changed by rescale"})
        hs.append(u)
    # 2. h -> g round trip
    idx = [i for i, h in enumerate(hs) if h is not None]
    ans = srv.batch(["resc %x %d 0" % (hs[i], s) for i in idx])
    for i, a in zip(idx, ans):
        part.evaluations += 1
        u = int(a.split()[0], 16)
        if u != gs[i]:
            part.violation("%s/roundtrip" % NAMES[s],
                           {"input": fmtI(gs[i]), "scale": NAMES[s], "hijri": fmtI(hs[i]), "observed": fmtI(u),
                            "summary": "%s -> %s %s -> %s" % (fmtI(gs[i]), NAMES[s], fmtI(hs[i]), fmtI(u))})
        else:
            part.sample({"scale": NAMES[s], "gregorian": fmtI(gs[i]), "hijri": fmtI(hs[i])}, cap=1)
    # 3. month lengths and weekdays as the library reports them
    months = sorted({unI(hs[i])[:2] for i in idx})
    nd = dict(zip(months, map(int, srv.batch(["ndim %d %d %d" % (s, y, m) for (y, m) in months]))))
    wd = srv.batch(["wday %d %d %d %d" % ((s,) + unI(hs[i])[:3]) for i in idx])
    for i, a in zip(idx, wd):
        part.evaluations += 1
        exp = days[i].isoweekday()
        if int(a) != exp:
            part.violation("%s/wday" % NAMES[s], {"input": fmtI(hs[i]), "observed": int(a), "expected": exp,
                                                 "summary": "weekday of %s %s reported %s, Gregorian image %s is %d"
                                                 % (NAMES[s], fmtI(hs[i]), a, days[i], exp)})
    # 4. successor rule
    for a, b in zip(idx, idx[1:]):
        if b != a + 1:
            continue
        part.evaluations += 1
        y, m, d = unI(hs[a])[:3]
        y2, m2, d2 = unI(hs[b])[:3]
        n = nd[(y, m)]
        if d < n:
            exp = (y, m, d + 1)
            part.nontrivial.add("%s/succ/inmonth" % NAMES[s])
        elif d == n:
            exp = (y, m + 1, 1) if m < 12 else (y + 1, 1, 1)
            part.nontrivial.add("%s/succ/%s" % (NAMES[s], "month-end" if m < 12 else "year-end"))
        else:
            exp = None
        if exp != (y2, m2, d2):
            part.violation("%s/successor" % NAMES[s],
                           {"input": [str(days[a]), str(days[b])], "observed": [fmtI(hs[a]), fmtI(hs[b])],
                            "ndim": n, "summary": "%s: %s is followed by %s although the month has %d days"
                            % (NAMES[s], fmtI(hs[a]), fmtI(hs[b]), n)})
    # 5. ndim == distance between the first days of adjacent months
    firsts = {}
    want = sorted(set(months) | {((y, m + 1) if m < 12 else (y + 1, 1)) for (y, m) in months})
    ans = srv.batch(["resc %x %d 0" % (I(y, m, 1, 0xff, 0, 0, 0), s) for (y, m) in want])
    for (y, m), a in zip(want, ans):
        u = int(a.split()[0], 16)
        if u:
            yy, mm, dd = unI(u)[:3]
            try:
                firsts[(y, m)] = datetime.date(yy, mm, dd).toordinal()
            except ValueError:
                firsts[(y, m)] = None
    for (y, m) in months:
        nxt = (y, m + 1) if m < 12 else (y + 1, 1)
        if cov is not None:
            k = hmonth_index(y, m) - cov[2]
            if not (0 <= k and k + 1 <= cov[3]):
                continue
            if k + 1 == cov[3]:
                continue   # the next month's first day is the end marker, not convertible
        part.evaluations += 1
        a, b = firsts.get((y, m)), firsts.get(nxt)
        if a is None or b is None or b - a != nd[(y, m)]:
            part.violation("%s/ndim" % NAMES[s],
                           {"input": [y, m], "observed": nd[(y, m)], "expected": None if (a is None or b is None) else b - a,
                            "summary": "%s %04d-%02d reported %d days; first days of it and the next month are %s apart"
                            % (NAMES[s], y, m, nd[(y, m)], None if (a is None or b is None) else b - a)})
        else:
            part.nontrivial.add("%s/ndim/%d" % (NAMES[s], nd[(y, m)]))


def greg(srv, part, days):
    """the Gregorian scale's own ndim / wday"""
    months = sorted({(d.year, d.month) for d in days})
    ans = srv.batch(["ndim 0 %d %d" % ym for ym in months])
    import calendar
    for (y, m), a in zip(months, ans):
        part.evaluations += 1
        if int(a) != calendar.monthrange(y, m)[1]:
            part.violation("GREGORIAN/ndim", {"input": [y, m], "observed": int(a), "summary": "ndim(%d-%d)=%s" % (y, m, a)})
    ans = srv.batch(["wday 0 %d %d %d" % (d.year, d.month, d.day) for d in days])
    for d, a in zip(days, ans):
        part.evaluations += 1
        if int(a) != d.isoweekday():
            part.violation("GREGORIAN/wday", {"input": str(d), "observed": int(a), "expected": d.isoweekday(),
                                              "summary": "weekday of %s reported %s" % (d, a)})
    part.nontrivial.add("GREGORIAN/wday")


def out_of_table(srv, part, root, s):
    first, end, sm, nm = table_cov(root, s)
    # Hijri months before the first and from the end marker on
    probes = []
    lo_idx, hi_idx = sm, sm + nm          # covered month indices [lo_idx, hi_idx)
    for k in list(range(lo_idx - 700, lo_idx)) + list(range(hi_idx, hi_idx + 700)):
        y, m = k // 12 + 1, k % 12 + 1
        for d in (1, 15, 29):
            probes.append((y, m, d))
    ans = srv.batch(["resc %x %d 0" % (I(y, m, d, 0xff, 0, 0, 0), s) for (y, m, d) in probes])
    for (y, m, d), a in zip(probes, ans):
        part.evaluations += 1
        u = int(a.split()[0], 16)
        part.nontrivial.add("%s/out-of-table/h2g/%s" % (NAMES[s], "before" if hmonth_index(y, m) < lo_idx else "after"))
        if u != 0:
            part.violation("%s/out-of-table/h2g-not-rejected" % NAMES[s],
                           {"input": [y, m, d], "scale": NAMES[s], "observed": fmtI(u), "expected": "nul instant",
                            "summary": "%s %04d-%02d-%02d lies outside the table but is mapped to Gregorian %s"
                            % (NAMES[s], y, m, d, fmtI(u))})
    # ... and has no weekday either (0 = no day)
    ans = srv.batch(["wday %d %d %d %d" % (s, y, m, d) for (y, m, d) in probes])
    for (y, m, d), a in zip(probes, ans):
        part.evaluations += 1
        if int(a) != 0:
            part.violation("%s/out-of-table/wday-not-rejected" % NAMES[s],
                           {"input": [y, m, d], "scale": NAMES[s], "observed": int(a), "expected": 0,
                            "summary": "%s %04d-%02d-%02d lies outside the table, cannot be converted, but is given weekday %s"
                            % (NAMES[s], y, m, d, a)})
    # months outside the table have no length
    months = [(k // 12 + 1, k % 12 + 1) for k in list(range(lo_idx - 700, lo_idx)) + list(range(hi_idx, hi_idx + 700))]
    ans = srv.batch(["ndim %d %d %d" % (s, y, m) for (y, m) in months])
    for (y, m), a in zip(months, ans):
        part.evaluations += 1
        if int(a) != 0:
            part.violation("%s/out-of-table/ndim-not-0" % NAMES[s],
                           {"input": [y, m], "scale": NAMES[s], "observed": int(a), "expected": 0,
                            "summary": "%s %04d-%02d lies outside the table but is said to have %s days" % (NAMES[s], y, m, a)})
    # Gregorian days just outside (the 1901..2099 sweep covers the rest)
    probes = []
    for mjd in list(range(first - 1000, first)) + list(range(end, end + 1000)):
        dt = datetime.date.fromordinal(mjd + MJD0)
        probes.append(dt)
    ans = srv.batch(["resc %x 0 %d" % (I(dt.year, dt.month, dt.day, 0xff, 0, 0, 0), s) for dt in probes])
    for dt, a in zip(probes, ans):
        part.evaluations += 1
        u = int(a.split()[0], 16)
        if u != 0:
            part.violation("%s/out-of-table/g2h-not-rejected" % NAMES[s],
                           {"input": str(dt), "scale": NAMES[s], "observed": fmtI(u), "expected": "nul instant",
                            "summary": "Gregorian %s lies outside the %s table but is mapped to %s" % (dt, NAMES[s], fmtI(u))})
    # the two edges inside
    for mjd in (first, end - 1):
        dt = datetime.date.fromordinal(mjd + MJD0)
        a = srv.batch(["resc %x 0 %d" % (I(dt.year, dt.month, dt.day, 0xff, 0, 0, 0), s)])[0]
        part.evaluations += 1
        if int(a.split()[0], 16) == 0:
            part.violation("%s/g2h-nul" % NAMES[s], {"input": str(dt), "summary": "edge day %s of the %s table rejected" % (dt, NAMES[s])})


def main(tier):
    root = build_or_die()
    run = Run(PROP, tier)
    for p in pmap(worker, [(root, run.seed, tier, w, NCPU) for w in range(NCPU)]):
        run.merge(p)
    run.cov["rule"] = ("complete: every day 1901-01-01..2099-12-31 x 10 Hijri scales: g->h->g identity, successor rule with the "
                       "library's own month length, month length = distance of adjacent first days, weekday = weekday of the "
                       "Gregorian image; plus 4200 Hijri and 2000 Gregorian out-of-table probes per table scale; "
                       "distinct = (scale, rule, sub-case) classes observed")
    run.cov["exhaustive"] = True
    run.assumptions = ["table coverage = [first entry, last entry) of the month-start array in src/dat_*.c of the tree under test",
                       "Python datetime is the Gregorian day-number and weekday reference"]
    return run.finish(min_eval=1000000, min_nontrivial=40)


def replay(path):
    w = json.load(open(path))
    print("replay = re-run of the complete sweep (the domain is finite and enumerated)")
    rc = main("quick")
    return rc

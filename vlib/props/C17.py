"""C17 -- BYEASTER and SHIFT extensions mean what the README says.
Easter: anonymous Gregorian computus, complete over 1901..2099 x N in -366..366.
SHIFT: metamorphic -- echse's own unshifted expansion + a Python shift model pinned by the README
and the expected outputs of the unroll_09/10/13 tests."""
import datetime as D
import json
import os
import re

from .. import build, rfc5545
from ..common import (Run, Part, CaseServer, HarnessCrash, pmap, rng_for, build_or_die, NCPU)
from .C01 import parse_occ

PROP = "C17"


def easter(y):
    """anonymous Gregorian algorithm (Meeus/Jones/Butcher)"""
    a = y % 19
    b, c = divmod(y, 100)
    d, e = divmod(b, 4)
    f = (b + 8) // 25
    g = (b - f + 1) // 3
    h = (19 * a + b - d - g + 15) % 30
    i, k = divmod(c, 4)
    l = (32 + 2 * e + 2 * i - h - k) % 7
    m = (a + 11 * h + 22 * l) // 451
    month, day = divmod(h + l - 7 * m + 114, 31)
    return D.date(y, month, day + 1)


def event(dtstart, rule_text):
    return ("BEGIN:VCALENDAR\nVERSION:2.0\nBEGIN:VEVENT\nUID:c17@verif\nSUMMARY:x\nDTSTART;VALUE=DATE:%s\nRRULE:%s\nEND:VEVENT\nEND:VCALENDAR\n"
            % (dtstart.strftime("%Y%m%d"), rule_text))


def pop(srv, text, n):
    return parse_occ(srv.case("n=%d budget=15000" % n, text))


# ---------------------------------------------------------------------------
# Easter

def easter_part(srv, part, offsets):
    start = D.date(1901, 1, 1)
    for N in offsets:
        part.evaluations += 1
        got, ended, _ = pop(srv, event(start, "FREQ=YEARLY;BYEASTER=%d" % N), 205)
        exp_all = sorted(easter(y) + D.timedelta(days=N) for y in range(1900, 2101))
        # periods end with 2099, so dates that belong to Easter 2100 or fall into 2100 are out of range
        lim = D.date(2098, 12, 31)
        exp = [x for x in exp_all if start <= x <= lim]
        got = [x for x in got if (isinstance(x, tuple) and int(x[1][:4], 16) < 2099) or (not isinstance(x, tuple) and x <= lim)]
        same_year = [easter(y) + D.timedelta(days=N) for y in range(1901, 2100)]
        same_year = [x for y, x in zip(range(1901, 2100), same_year) if x.year == y and x <= lim]
        cls = "in-year" if len(same_year) == len(exp) else "leaves-year"
        part.nontrivial.add("easter/%s/%s" % (cls, "neg" if N < 0 else ("zero" if N == 0 else "pos")))
        part.count("easter_dates_compared", len(exp))
        if got != exp:
            missing = sorted(set(exp) - set(got))
            extra = sorted(set(got) - set(exp))
            if got == same_year and cls == "leaves-year":
                key = "easter/offset-leaves-year/dropped"
            else:
                key = "easter/%s/%s" % (cls, "wrong-date" if extra else "missing")
            part.violation(key, {"input": "FREQ=YEARLY;BYEASTER=%d" % N, "observed": [str(x) for x in got[:5]],
                                 "expected": [str(x) for x in exp[:5]], "missing": [str(x) for x in missing[:5]],
                                 "extra": [str(x) for x in extra[:5]],
                                 "summary": "BYEASTER=%d: %d of %d expected dates missing (e.g. %s), %d unexpected (e.g. %s)"
                                 % (N, len(missing), len(exp), missing[:1], len(extra), extra[:1])})
        elif len(part.samples) < 1:
            part.sample({"rule": "FREQ=YEARLY;BYEASTER=%d" % N, "first": [str(x) for x in got[:3]], "n": len(got)})


# ---------------------------------------------------------------------------
# SHIFT model

def bshift(d, n, neg_zero, suffix):
    """business day shift of date d by n; neg_zero: the text carried a minus sign; suffix '', '+' or '-'"""
    if n > 0:
        neg = False
    elif n < 0:
        neg = True
    else:
        neg = neg_zero or suffix == "-"
    inverted = (suffix == "+" and not neg) or (suffix == "-" and neg)
    w = d.weekday()
    if w >= 5:
        if neg:
            d -= D.timedelta(days=w - 4)
            if n and not inverted:
                n += 1
        else:
            d += D.timedelta(days=7 - w)
            if n and not inverted:
                n -= 1
    step = -1 if n < 0 else 1
    for _ in range(abs(n)):
        d += D.timedelta(days=step)
        while d.weekday() >= 5:
            d += D.timedelta(days=step)
    return d


def _model_selftest():
    """the model must reproduce the repository's pinned expectations"""
    errs = []
    # unroll_09: FREQ=MONTHLY;BYMONTHDAY=1;SHIFT=-2B in 2018
    exp = ["2018-01-30", "2018-02-27", "2018-03-29", "2018-04-27", "2018-05-30", "2018-06-28", "2018-07-30", "2018-08-30",
           "2018-09-27", "2018-10-30", "2018-11-29", "2018-12-28"]
    got = [str(bshift(D.date(2018 + (m == 13), m if m < 13 else 1, 1), -2, True, "")) for m in range(2, 14)]
    if got != exp:
        errs.append("unroll_09 %s" % got)
    # unroll_10: BYMONTHDAY=15;SHIFT=1B+
    exp = ["2018-01-16", "2018-02-16", "2018-03-16", "2018-04-17", "2018-05-16", "2018-06-18"]
    got = [str(bshift(D.date(2018, m, 15), 1, False, "+")) for m in range(1, 7)]
    if got != exp:
        errs.append("unroll_10 %s" % got)
    # unroll_13: BYMONTH=3,5,9,12;BYMONTHDAY=10;SHIFT=-4B
    exp = ["2019-03-05", "2019-05-06", "2019-09-04", "2019-12-04", "2020-03-04", "2020-05-05"]
    got = [str(bshift(D.date(y, m, 10), -4, True, "")) for y in (2019, 2020) for m in (3, 5, 9, 12)][:6]
    if got != exp:
        errs.append("unroll_13 %s" % got)
    # README: -0B goes back to Friday
    if bshift(D.date(2018, 4, 1), 0, True, "") != D.date(2018, 3, 30) or bshift(D.date(2018, 4, 1), 0, False, "") != D.date(2018, 4, 2):
        errs.append("zero shifts")
    return errs


def shift_spelling(rng):
    """(text, fn) for a shift whose meaning README/tests fix"""
    r = rng.random()
    if r < 0.35:
        n = rng.choice([1, 2, 3, 7, 10, 28, 29, 30, 31, 59, 60, 61, 90, 91, 92, 100, 120, 121, 122, 123, 200, 365, 366]) * rng.choice([1, -1])
        if rng.random() < 0.2:
            n = rng.randint(-366, 366)
        return "%d" % n, (lambda d, n=n: d + D.timedelta(days=n)), "day"
    n = rng.choice([0, 0, 1, 1, 2, 3, 4, 5, 6, 9, 10, 11, 21, 22, 65, 130, 260])
    if rng.random() < 0.15:
        n = rng.randint(0, 260)
    elif rng.random() < 0.1:
        n = rng.choice([261, 275, 276, 277, 300, 365, 366, rng.randint(261, 366)])      # beyond a year's worth of business days
    form = rng.choice(["plain+", "plain-", "B+", "-B-"])
    if form == "plain+":
        return "%dB" % n, (lambda d, n=n: bshift(d, n, False, "")), "bplain+" + ("0" if n == 0 else "")
    if form == "plain-":
        return "-%dB" % n, (lambda d, n=n: bshift(d, -n, True, "")), "bplain-" + ("0" if n == 0 else "")
    if form == "B+":
        return "%dB+" % n, (lambda d, n=n: bshift(d, n, False, "+")), "bfwd" + ("0" if n == 0 else "")
    if n == 0 and rng.random() < 0.5:
        return "0B-", (lambda d: bshift(d, 0, False, "-")), "bback0"
    return "-%dB-" % n, (lambda d, n=n: bshift(d, -n, True, "-")), "bback" + ("0" if n == 0 else "")


def base_rule(rng):
    k = rng.choice(["monthday", "nthwd", "yearly", "lastday", "weekend"])
    if k == "monthday":
        return "FREQ=MONTHLY;BYMONTHDAY=%d" % rng.choice([1, 2, 15, 28, 29, 30, 31]), k
    if k == "lastday":
        return "FREQ=MONTHLY;BYMONTHDAY=-1", k
    if k == "nthwd":
        return "FREQ=MONTHLY;BYDAY=%d%s" % (rng.choice([1, 2, 4, -1]), rng.choice(rfc5545.WD)), k
    if k == "weekend":
        return "FREQ=MONTHLY;BYDAY=%s" % rng.choice(["1SA", "1SU", "-1SA", "-1SU", "2SU"]), k
    return "FREQ=YEARLY;BYMONTH=%d;BYMONTHDAY=%d" % (rng.choice([1, 2, 2, 12, 6]), rng.choice([1, 28, 29, 31, 15])), k


def shift_case(srv, part, rng):
    base, bk = base_rule(rng)
    stext, fn, sk = shift_spelling(rng)
    dtstart = D.date(rng.randint(1950, 2060), rng.randint(1, 12), rng.randint(1, 28))
    if rng.random() < 0.3:
        # the first days of a month (March above all): where dates moved across the shortest month arrive
        dtstart = D.date(rng.randint(1950, 2060), rng.choice([3, 3, 3, 1, 5, 12, rng.randint(1, 12)]), rng.choice([1, 1, 2, 3]))
    lim = ""
    count = None
    until = None
    r = rng.random()
    if r < 0.3:
        count = rng.choice([1, 2, 5, 30, 63, 64, 65])
        lim = ";COUNT=%d" % count
    elif r < 0.5:
        until = dtstart + D.timedelta(days=rng.choice([30, 400, 2000]))
        lim = ";UNTIL=" + until.strftime("%Y%m%d")
    part.evaluations += 1
    N = 70
    # INTERVAL > 1: the unshifted reference has to start a whole number of periods earlier
    iv = rng.choice([1, 1, 1, 2, 3])
    if iv > 1:
        base = base.replace(";", ";INTERVAL=%d;" % iv, 1)
    # unshifted expansion from well before DTSTART (shifted-in occurrences) ...
    if base.startswith("FREQ=YEARLY"):
        early = dtstart.replace(year=dtstart.year - 3 * iv)
    else:
        early = dtstart.replace(year=dtstart.year - 2 * iv)      # 24 * iv months
    U, u_ended, _ = pop(srv, event(early, base), N + 60)
    got, g_ended, _ = pop(srv, event(dtstart, base + ";SHIFT=" + stext + lim), N)
    if any(isinstance(x, tuple) for x in U + got):
        part.inconclusive.append({"why": "unshifted base stream unusable", "rule": base})
        return
    if len(U) < 10:
        # the generator picked a day that (almost) never exists, e.g. February 31: nothing to shift, not a case
        part.count("base_rules_without_occurrences_skipped")
        part.evaluations -= 1
        return
    shifted = sorted({fn(x) for x in U})
    # what the unshifted base can vouch for: shifted images of occurrences strictly inside the unrolled span
    horizon = fn(U[-1]) - D.timedelta(days=800) if "-" in stext else fn(U[-1])
    horizon = min(horizon, fn(U[-1]), U[-1] - D.timedelta(days=400))
    exp = [x for x in shifted if x >= dtstart]
    if until is not None:
        exp = [x for x in exp if x <= until]
    if count is not None:
        exp = exp[:count]
    ended_expected = (count is not None and len(exp) == count) or (until is not None and until < horizon)
    expw = [x for x in exp if x <= horizon]
    gotw = [x for x in got if x <= horizon]
    if not g_ended and got and got[-1] < horizon:
        expw = [x for x in expw if x <= got[-1]]
    part.nontrivial.add("shift/%s/%s/%s" % (bk, sk, "count" if count else ("until" if until else "open")))
    part.count("shifted_dates_compared", len(expw))
    if gotw != expw:
        missing = sorted(set(expw) - set(gotw))
        extra = sorted(set(gotw) - set(expw))
        kind = "wrong-date" if (missing and extra) else ("missing" if missing else ("extra" if extra else "order-or-duplicate"))
        # a shift that crosses two New Years (Dec 31 + 366, 1 Jan - 260B) has its own classifier key
        far = {fn(x) for x in U if abs(fn(x).year - x.year) >= 2}
        if missing and all(x in far for x in missing) and all(any(abs(e.year - f.year) == 1 and (e.month, e.day) == (f.month, f.day) for f in far) for e in extra):
            sk, kind = "crosses-two-years", "wrong-year"
        part.violation("shift/%s/%s" % (sk, kind),
                       {"input": event(dtstart, base + ";SHIFT=" + stext + lim), "unshifted": [str(x) for x in U[:6]],
                        "observed": [str(x) for x in gotw[:8]], "expected": [str(x) for x in expw[:8]],
                        "summary": "%s;SHIFT=%s%s from %s: expected %s..., got %s... (missing %s extra %s)"
                        % (base, stext, lim, dtstart, [str(x) for x in expw[:3]], [str(x) for x in gotw[:3]],
                           [str(x) for x in missing[:2]], [str(x) for x in extra[:2]])})
    elif len(part.samples) < 3:
        part.sample({"rule": base + ";SHIFT=" + stext + lim, "dtstart": str(dtstart), "first": [str(x) for x in gotw[:3]]})


def worker(args):
    root, seed, tier, wid, nw, ncases = args
    part = Part()
    srv = CaseServer(build.exe(root, "asan", "h_strm"), wall_timeout=120)
    rng = rng_for(seed, PROP, wid)
    try:
        offs = list(range(-366, 367))[wid::nw]
        try:
            easter_part(srv, part, offs)
        except HarnessCrash as e:
            part.violation("easter/crash-" + e.kind, {"summary": e.detail[:600]})
        for _ in range(ncases):
            try:
                shift_case(srv, part, rng)
            except HarnessCrash as e:
                part.violation("shift/crash-" + e.kind, {"summary": e.detail[:600]})
    finally:
        srv.close()
    return part.export()


def main(tier):
    errs = _model_selftest()
    if errs:
        print("HARNESS-FAILURE shift model does not reproduce the pinned expectations: %s" % errs)
        return 2
    # the Easter oracle against a few well known dates
    known = {1961: (4, 2), 2000: (4, 23), 2008: (3, 23), 2011: (4, 24), 2019: (4, 21), 2038: (4, 25), 1943: (4, 25), 1913: (3, 23)}
    for y, (m, d) in known.items():
        if easter(y) != D.date(y, m, d):
            print("HARNESS-FAILURE computus self-test failed for %d" % y)
            return 2
    root = build_or_die()
    run = Run(PROP, tier)
    total = 8000 if tier == "quick" else 100000
    for p in pmap(worker, [(root, run.seed, tier, w, NCPU, total // NCPU) for w in range(NCPU)]):
        run.merge(p)
    run.cov["rule"] = ("Easter: complete, FREQ=YEARLY;BYEASTER=N for every N in -366..366 unrolled over 1901..2099 and compared with "
                       "the anonymous Gregorian computus; SHIFT: day shifts and business-day shifts (plain, B+, -NB-, zero forms) on "
                       "monthly month-day / nth-weekday / weekend / last-day and yearly base rules, expected = Python shift model "
                       "applied to echse's own unshifted expansion started 800 days earlier, then DTSTART/UNTIL/COUNT; "
                       "distinct = (part, base rule kind, shift form, limit kind)")
    run.cov["exhaustive"] = True
    run.cov["exhaustive_scope"] = "the BYEASTER part (733 offsets x 199 years)"
    run.assumptions = ["business shift semantics as pinned by README and tests unroll_09/10/13: a weekend date moves to the adjacent "
                       "business day in the direction of the shift; that move is one of the N steps for plain NB and none for NB+/-NB-",
                       "spellings whose meaning neither README nor tests fix (1B-, -1B+) are not generated"]
    return run.finish(min_eval=total // 2, min_nontrivial=30)


def replay(path):
    w = json.load(open(path))
    print(json.dumps({k: w.get(k) for k in ("key", "input", "observed", "expected")}, indent=1))
    return 1

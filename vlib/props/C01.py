"""C01 -- RRULE expansion equals the RFC 5545 recurrence set.
Oracle: vlib/rfc5545.py (naive period-by-period expander, self-tested on the RFC's examples)."""
import datetime as D
import json
import os
import subprocess
import sys
import tempfile
import time

from .. import build, rfc5545, rulegen
from ..common import (Run, Part, CaseServer, HarnessCrash, pmap, rng_for, build_or_die, NCPU, I, unI, fmtI, SAN_ENV)

PROP = "C01"
ALLSEC = 0x3ff


def to_py(u):
    y, m, d, H, M, S, ms = unI(u)
    if H == 0xff:
        return D.date(y, m, d)
    return D.datetime(y, m, d, H, M, S)


def dt_text(x):
    if isinstance(x, D.datetime):
        return "DTSTART:" + x.strftime("%Y%m%dT%H%M%SZ")
    return "DTSTART;VALUE=DATE:" + x.strftime("%Y%m%d")


def ical(dtstart, rules, uid="c01@verif", extra=""):
    if isinstance(rules, dict):
        rules = [rules]
    return ("BEGIN:VCALENDAR\nVERSION:2.0\nBEGIN:VEVENT\nUID:%s\nSUMMARY:x\n%s\n%s%s\nEND:VEVENT\nEND:VCALENDAR\n"
            % (uid, dt_text(dtstart), extra, "\n".join("RRULE:" + rfc5545.rule_text(r) for r in rules)))


def parse_occ(lines):
    """occurrences of the first stream: list of python dates/datetimes, ended flag, monitor lines"""
    got, ended, mon = [], False, []
    for l in lines:
        if l.startswith("O "):
            if l == "O -":
                ended = True
                break
            try:
                got.append(to_py(int(l.split()[1], 16)))
            except ValueError:
                got.append(("invalid", l.split()[1]))
        elif l.startswith("M "):
            mon.append(l)
    return got, ended, mon


def make_case(rng, tier):
    """a synchronised (dtstart, rule, N) or None"""
    is_date = rng.random() < 0.3
    r = rulegen.gen_rule(rng, is_date, valid=True)
    t0 = rulegen.pick_dtstart(rng, is_date)
    probe = rfc5545.expand(t0, r, want=4, max_periods=20000)
    if not probe.items:
        return None
    dtstart = probe.items[rng.choice([0, 0, 0, 1, 2, 3]) % len(probe.items)]
    N = rng.choice([5, 5, 20, 20, 70, 70, 130, 200, 400]) if tier != "quick" else rng.choice([5, 20, 20, 70, 70, 130, 200])
    mode = rng.random()
    if r.pop("boundary_weeks", None) and mode < 0.3:
        mode = 0.4          # no COUNT: whether the days in the neighbouring year count is the reader's choice
    if mode < 0.3:
        r["count"] = rng.choice(rulegen.COUNTS)
    elif mode < 0.55:
        e = rfc5545.expand(dtstart, r, want=min(N, 140), max_periods=40000)
        if len(e.items) >= 2:
            x = e.items[rng.randrange(1, len(e.items))]
            how = rng.choice(["at", "before", "after"])
            if isinstance(x, D.datetime):
                u = x + D.timedelta(seconds={"at": 0, "before": -1, "after": 1}[how])
            else:
                u = x + D.timedelta(days={"at": 0, "before": -1, "after": 1}[how])
            if u >= dtstart:
                r["until"] = u
    return dtstart, r, N


def oracle(dtstart, r, N):
    """(E, exhausted, npop): expected occurrences up to 2099-12-31, and how many pops can be judged"""
    e = rfc5545.expand(dtstart, r, want=N + 2, max_periods=200000)
    T = e.complete_until
    if T is None:
        return None
    E = [x for x in e.items if x <= T]
    if e.exhausted:
        npop = min(N, len(E) + 2)
        return E, True, npop
    # open-ended within what the oracle knows (period cap or the 2099 horizon)
    return E, False, min(N, len(E))


def judge(part, dtstart, r, N, got, ended, mon, style, text, orc):
    """compare echse's occurrences with the oracle; returns list of (kind, detail)"""
    fails = []
    for g in got:
        if isinstance(g, tuple):
            return [("invalid-instant", "stream produced %s" % (g[1],))]
    E, exhausted, npop = orc
    # the oracle (and the library's calendar) ends with 2099: whatever comes after that is not judged
    n0, e0 = len(got), len(E)
    got = [x for x in got if x.year <= 2099]
    E = [x for x in E if x.year <= 2099]
    if len(got) < n0:
        # the stream went past 2099, so it is complete up to there: compare exactly that
        ended, exhausted, npop = True, True, len(got)
    elif len(E) < e0:
        exhausted = False
        npop = min(npop, len(E))
    if mon:
        fails.append(("pop!=peek", mon[0]))
    if r.get("count") is not None and len(got) > r["count"]:
        fails.append(("more-than-COUNT", "%d occurrences for COUNT=%d" % (len(got), r["count"])))
    if r.get("until") is not None and any(x > r["until"] for x in got):
        fails.append(("after-UNTIL", str([str(x) for x in got if x > r["until"]][:2])))
    if any(x < dtstart for x in got):
        fails.append(("before-DTSTART", str([str(x) for x in got if x < dtstart][:2])))
    if not ended and len(got) < npop:
        return fails + [("__inconclusive__", "harness stopped early")]
    Gw = got
    if ended:
        # the stream says this is all: everything the oracle knows must be there
        Ew = E
    elif exhausted and len(E) < npop:
        Ew = E
        fails.append(("extra", "stream goes on after the set is exhausted: %s" % [str(x) for x in got[len(E):len(E) + 2]]))
    else:
        Ew = E[:len(got)]
    sE, sG = set(Ew), set(Gw)
    # judge membership up to the last instant both sides are known for
    if Gw and Ew and not ended and not (exhausted and len(E) < npop):
        lim = min(max(Gw), max(Ew))
        sE = {x for x in sE if x <= lim}
        sG = {x for x in sG if x <= lim}
    missing = sorted(sE - sG)
    extra = sorted(sG - sE)
    if r.get("byweekno"):
        # days of week 1/52/53 that lie in the neighbouring calendar year: a reader may leave them out; what it
        # delivers must still be in the set
        missing = [x for x in missing if x.isocalendar()[0] == x.year]
    if len(Gw) != len(set(Gw)):
        fails.append(("duplicate", "an instant is delivered twice"))
    if missing:
        fails.append(("missing", "e.g. %s" % ", ".join(str(x) for x in missing[:3])))
    if extra:
        fails.append(("extra", "e.g. %s" % ", ".join(str(x) for x in extra[:3])))
    if not missing and not extra and Gw != sorted(Gw):
        fails.append(("out-of-order", ""))
    return fails


def refills(n):
    return min(n // 63, 6)


def run_case(srv, part, rng, dtstart, r, N, style):
    text = ical(dtstart, r)
    orc = oracle(dtstart, r, N)
    if orc is None or orc[2] == 0:
        part.inconclusive.append({"why": "oracle window empty", "rule": rfc5545.rule_text(r)})
        return None
    try:
        lines = srv.case("n=%d style=%s budget=8000" % (orc[2], style), text)
    except HarnessCrash as e:
        part.inconclusive.append({"why": "crash/hang is judged by C09: " + e.kind, "rule": rfc5545.rule_text(r), "dtstart": str(dtstart)})
        part.count("crash_or_hang_left_to_C09")
        return None
    got, ended, mon = parse_occ(lines)
    fails = judge(part, dtstart, r, N, got, ended, mon, style, text, orc)
    return got, ended, fails, text


def worker(args):
    root, seed, tier, wid, nw, ncases = args
    part = Part()
    srv = CaseServer(build.exe(root, "asan", "h_strm"), wall_timeout=120)
    rng = rng_for(seed, PROP, wid)
    cli = build.exe(root, "asan", "echse")
    try:
        done = 0
        while done < ncases:
            c = make_case(rng, tier)
            if c is None:
                continue
            dtstart, r, N = c
            done += 1
            style = rng.choice(["pop", "pop", "peekpop", "npeek"])
            _t0 = time.time()
            res = run_case(srv, part, rng, dtstart, r, N, style)
            if time.time() - _t0 > 3.0 and os.environ.get("VERIF_DEBUG"):
                sys.stderr.write("SLOW %.1fs w%d %s from %s N=%d\n" % (time.time() - _t0, wid, rfc5545.rule_text(r), dtstart, N))
            part.evaluations += 1
            if res is None:
                continue
            got, ended, fails, text = res
            sig = rulegen.shape_sig(r, dtstart) + "/refills%d" % refills(len(got))
            inconc = [f for f in fails if f[0] == "__inconclusive__"]
            fails = [f for f in fails if f[0] != "__inconclusive__"]
            if inconc:
                part.inconclusive.append({"why": inconc[0][1], "rule": rfc5545.rule_text(r)})
            if len(got) >= 2 and not inconc:
                part.nontrivial.add(sig)
            part.count("occurrences_compared", len(got))
            part.count("refills_crossed", refills(len(got)))
            for kind, detail in fails:
                key = rulegen.shape_sig(r, dtstart) + "/" + kind
                part.violation(key, {"input": text, "dtstart": str(dtstart), "rule": rfc5545.rule_text(r), "n": N,
                                     "rule_obj": {k: (str(v) if k == "until" else v) for k, v in r.items()},
                                     "is_date": not isinstance(dtstart, D.datetime),
                                     "style": style, "observed": [str(x) for x in got[:12]], "detail": detail,
                                     "summary": "%s from %s: %s %s" % (rfc5545.rule_text(r), dtstart, kind, detail)})
            if not fails:
                part.sample({"dtstart": str(dtstart), "rrule": rfc5545.rule_text(r), "popped": len(got),
                             "first": [str(x) for x in got[:3]], "style": style}, cap=2)
            # the command line path on a sample
            if rng.random() < 0.05 and not fails and got:
                cli_check(part, cli, text, dtstart, r, got, ended)
    finally:
        srv.close()
    return part.export()


def cli_check(part, cli, text, dtstart, r, got, ended):
    env = dict(os.environ)
    env.update(SAN_ENV)
    with tempfile.NamedTemporaryFile("w", suffix=".ics", delete=False) as f:
        f.write(text)
        fn = f.name
    try:
        last = got[-1]
        till = (last.date() if isinstance(last, D.datetime) else last) + D.timedelta(days=1)
        p = subprocess.run([cli, "unroll", "--format", "%b", "--till", till.strftime("%Y-%m-%d"), fn],
                           stdout=subprocess.PIPE, stderr=subprocess.PIPE, env=env, timeout=120)
    except subprocess.TimeoutExpired:
        part.inconclusive.append({"why": "cli timeout", "rule": rfc5545.rule_text(r)})
        return
    finally:
        os.unlink(fn)
    part.count("cli_runs")
    out = []
    for l in p.stdout.decode().split("\n"):
        l = l.strip()
        if not l:
            continue
        try:
            if "T" in l:
                out.append(D.datetime.strptime(l[:19], "%Y-%m-%dT%H:%M:%S"))
            else:
                out.append(D.date(int(l[0:4]), int(l[5:7]), int(l[8:10])))
        except ValueError:
            out.append(("bad", l))
    lib = list(got)
    # the tool prints everything up to --till; the library side stopped after len(got) pops
    n = len(lib)
    if lib != out[:n] or (ended and len(out) != n):
        part.violation(rulegen.shape_sig(r, dtstart) + "/CLI!=library",
                       {"input": text, "observed_cli": [str(x) for x in out[:10]], "observed_lib": [str(x) for x in lib[:10]],
                        "summary": "echse unroll prints %s..., library pops %s..." % ([str(x) for x in out[:3]], [str(x) for x in lib[:3]])})


def main(tier):
    errs = rfc5545._selftest()
    if errs:
        print("HARNESS-FAILURE oracle self-test failed: %s" % errs[:3])
        return 2
    root = build_or_die()
    run = Run(PROP, tier)
    total = 16000 if tier == "quick" else 400000
    per = total // NCPU
    for p in pmap(worker, [(root, run.seed, tier, w, NCPU, per) for w in range(NCPU)]):
        run.merge(p)
    run.cov["rule"] = ("grammar-directed rules over the supported language (all 7 FREQ, INTERVAL incl. 13/26/70/400, COUNT around "
                       "the 64-entry refill, UNTIL at/next to an occurrence, BYxxx per the RFC validity table, negative values, "
                       "BYSETPOS) with DTSTART synchronised to the oracle's own set and drawn from calendar-phase classes; first "
                       "N<=400 occurrences popped in 3 consumption styles and compared with the naive RFC expander; "
                       "distinct = (FREQ, parts present, sign pattern, INTERVAL>1, COUNT/UNTIL/open, DATE/DATE-TIME, refills crossed) "
                       "with >=2 occurrences compared")
    run.assumptions = ["weeks start on Monday; BYWEEKNO restricted to interior weeks (2..51) where all readings agree",
                       "crashes and hangs met here are left to C09 (counted as inconclusive)",
                       "instants after 2099-12-31 are not judged"]
    return run.finish(min_eval=total // 2, min_nontrivial=50)


def replay(path):
    w = json.load(open(path))
    root = build_or_die()
    srv = CaseServer(build.exe(root, "asan", "h_strm"))
    try:
        lines = srv.case("n=%d style=%s budget=20000" % (w.get("n", 100), w.get("style", "pop")), w["input"])
    except HarnessCrash as e:
        print("crash/hang:", e.kind, e.detail[:300])
        return 1
    finally:
        srv.close()
    got, ended, mon = parse_occ(lines)
    print("rule:", w.get("rule"), "dtstart:", w.get("dtstart"))
    print("echse:", [str(x) for x in got[:20]], "ended" if ended else "...")
    print("recorded verdict:", w["key"], w.get("detail"))
    return 1

"""C04 -- the daemon runs every future occurrence exactly once, on time, in order.
echsd.c (unmodified) on the real libev under a virtual clock; offline trace checker against a
sequential scheduler spec (vlib/sched.py); occurrence lists come from an independent unroll."""
import datetime as D
import json
import os
import shutil
import tempfile

from .. import build, sched, rfc5545, xxh
from ..common import (Run, Part, CaseServer, HarnessCrash, pmap, rng_for, build_or_die, NCPU)

PROP = "C04"


def fmt_dt(t):
    return D.datetime.utcfromtimestamp(int(t)).strftime("%Y%m%dT%H%M%SZ")


def gen_task(rng, uid, now, span):
    """(ical text, limit) for one task whose occurrences lie around [now, now+span]"""
    kind = rng.choice(["secondly", "minutely", "minutely", "hourly", "daily", "rdate", "past", "old", "single", "longcount"])
    start = now + rng.choice([-3 * span, -span, -60, -1, 0, 1, 17, span / 3, span / 2])
    if kind == "longcount":
        # a finite task that is armed a few hundred times before its last occurrence: counts on and around multiples of 256
        fits = [(p, c) for p in (1, 2, 7, 60, 3600) for c in (255, 256, 257, 511, 512, 513, 768, 1024) if 20 + p * c < span]
        if not fits:
            kind = "minutely"
        else:
            per, cnt = rng.choice(fits)
            start = int(now + rng.choice([1, 5, 17]))
            unit, iv = ("SECONDLY", per) if per < 60 else (("MINUTELY", 1) if per == 60 else ("HOURLY", 1))
            return "\n".join(["BEGIN:VEVENT", "UID:" + uid, "SUMMARY:job " + uid, "DTSTART:" + fmt_dt(start),
                              "RRULE:FREQ=%s;INTERVAL=%d;COUNT=%d" % (unit, iv, cnt), "END:VEVENT"]), per
    if kind == "old":
        # before 2001 (the daemon's own epoch), but close enough for the unroll to get past it
        start = rng.choice([978307200 - 1, 978307200 - 3600, 946684800 - 86400 * 400, 915148800])
    start = int(start)
    lines = ["BEGIN:VEVENT", "UID:" + uid, "SUMMARY:job " + uid, "DTSTART:" + fmt_dt(start)]
    per = None
    if kind == "secondly":
        per = rng.choice([1, 2, 5, 7, 30])
        r = "FREQ=SECONDLY;INTERVAL=%d" % per
    elif kind == "old":
        per = 28 * 86400
        r = "FREQ=MONTHLY"
    elif kind == "minutely":
        iv = rng.choice([1, 1, 2, 5])
        per = 60 * iv
        r = "FREQ=MINUTELY;INTERVAL=%d" % iv
    elif kind == "hourly":
        per = 3600
        r = "FREQ=HOURLY"
    elif kind == "daily":
        per = 86400
        r = "FREQ=DAILY"
    elif kind == "past":
        per = 60
        r = "FREQ=MINUTELY;COUNT=%d" % rng.choice([1, 3, 10])
        start = int(now - rng.choice([3600, 86400, 10 * 86400]))
        lines[3] = "DTSTART:" + fmt_dt(start)
    else:
        r = None
    if per is not None and kind not in ("past", "old") and (now - start) / per > 800:
        # the independent unroll starts at DTSTART: keep the past within its reach
        start = int(now - 800 * per)
        lines[3] = "DTSTART:" + fmt_dt(start)
    if r is not None and per is not None and kind != "past":
        # keep the number of occurrences inside the history below what the independent unroll fetches
        first = max(start, now - 1)
        if (now + span - first) / per > 400:
            r += ";UNTIL=" + fmt_dt(first + 400 * per)
            lines.append("RRULE:" + r)
            r = None
    if r is not None:
        lim = rng.random()
        if kind in ("past",):
            pass
        elif lim < 0.5:
            if kind == "old":
                r += ";UNTIL=" + fmt_dt(now + rng.choice([30, span / 2, span]))
            else:
                r += ";COUNT=%d" % rng.choice([1, 2, 3, 5, 20, 70])
        elif lim < 0.8:
            r += ";UNTIL=" + fmt_dt(now + rng.choice([1, 30, span / 2, span]))
        lines.append("RRULE:" + r)
    if kind in ("rdate", "old") or rng.random() < 0.15:
        base = int(now + rng.choice([5, 30, span / 4]))
        rd = [base, base, base + 1, base + rng.randint(2, int(max(3, span / 2)))]
        rng.shuffle(rd)
        lines.append("RDATE:" + ",".join(fmt_dt(x) for x in rd))
    lines.append("END:VEVENT")
    return "\n".join(lines), per


def vcal(events, method=None):
    return "BEGIN:VCALENDAR\nVERSION:2.0\n" + ("METHOD:%s\n" % method if method else "") + "\n".join(events) + "\nEND:VCALENDAR\n"


def occurrences(srv, vevent_text, horizon):
    """independent unroll (library harness, fresh stream) -> epoch seconds up to horizon"""
    lines = srv.case("n=1500 budget=10000", vcal([vevent_text]))
    occ = []
    more = True          # unless the stream is seen to end, there is more beyond what we fetched
    for l in lines:
        if l.startswith("O "):
            if l == "O -":
                more = False
                break
            t = sched.epoch(int(l.split()[1], 16))
            if t > horizon:
                break
            occ.append(float(t))
    return occ, more


def cancel_text(uid):
    return vcal(["BEGIN:VEVENT\nUID:%s\nSTATUS:CANCELLED\nEND:VEVENT" % uid], method="CANCEL")


def build_history(rng, srv, spool, tier):
    now = float(rng.randint(1000000000, 1600000000)) + rng.choice([0.25, 0.5, 0.731])
    span = rng.choice([40, 120, 600, 7200, 3 * 86400])
    t_end = now + span
    sc = sched.Script(spool, now)
    ntasks = rng.choice([1, 1, 2, 3, 6, 12])
    users = [1000, 1001, 1002]
    incs = {}
    timeline = []          # (time, kind, payload)
    tasks = {}
    # in two histories out of five the UIDs crowd the end of the daemon's task table (home slots 29..31 of 32, i.e. 13..15
    # of 16), so that their probe sequences wrap around to slot 0: cancel, replace and retirement then work on a cluster
    uids = ["t%d@verif" % i for i in range(ntasks)]
    if rng.random() < 0.4:
        uids, n = [], rng.randint(0, 10 ** 6)
        while len(uids) < ntasks:
            n += 1
            u = "c%d@verif" % n
            if (xxh.xxh32(u) & 31) >= 29:
                uids.append(u)
    for i in range(ntasks):
        uid = uids[i]
        owner = rng.choice(users)
        text, per = gen_task(rng, uid, now, span)
        t_add = now + rng.choice([0, 0, 0.5, span * 0.1, span * 0.3])
        timeline.append((t_add, "add", (uid, owner, text)))
        tasks[uid] = (owner, per)
        r = rng.random()
        if r < 0.3:
            text2, per2 = gen_task(rng, uid, now + span * 0.5, span)
            tr = now + span * rng.choice([0.4, 0.5, 0.6])
            if rng.random() < 0.5:
                # the new definition is short and over well before the history is: jobs of the old one are still about when
                # it is loaded, and it must be retired like any other
                text2 = "\n".join(["BEGIN:VEVENT", "UID:" + uid, "SUMMARY:job " + uid, "DTSTART:" + fmt_dt(int(tr) + rng.choice([1, 2, 5])),
                                   "RRULE:FREQ=SECONDLY;INTERVAL=%d;COUNT=%d" % (rng.choice([1, 2, 5]), rng.choice([1, 2, 3, 5])), "END:VEVENT"])
            timeline.append((tr, "add", (uid, owner, text2)))
        elif r < 0.45:
            timeline.append((now + span * rng.choice([0.3, 0.5, 0.7]), "cancel", (uid, owner)))
    timeline.sort(key=lambda x: x[0])
    # lifetimes of the children: instant, shorter than, equal to, longer than the period, never
    lives = []
    for _ in range(rng.randint(1, 30)):
        lives.append(rng.choice([0.01, 0.3, 0.999, 1.0, 1.001, 5.0, 59.9, 60.0, 60.1, 200.0, 7000.0, -1]))
    sc.add("lives " + " ".join("%g" % x for x in lives))
    if rng.random() < 0.5:
        # exits arrive as a signal while the loop is about to poll and are collected after the timers of the same
        # iteration (what a daemon that was held up sees); otherwise they are seen before the timers
        sc.add("reapmode poll")
    t = now
    stalls = 0
    conn = 0
    # in one history out of eight the time the daemon loses is not a stall of the process but a step of the wall clock
    # (settimeofday, resume from suspend): the monotonic clock does not move, libev notices the jump and re-arms its timers
    steps = rng.random() < 0.125
    for (te, kind, pl) in timeline:
        # let time pass up to the event, sometimes with the daemon held up
        while t < te:
            step = min(te, t + rng.choice([span / 7.0, span / 3.0, span]))
            r = rng.random()
            if r < 0.15:
                dt = rng.choice([0.5, 3.0, 45.0, 130.0, span / 4.0])
                if t + dt < te:
                    sc.add(("jump %.3f" if steps else "stall %.3f") % dt)
                    t += dt
                    stalls += 1
            elif r < 0.25:
                sc.add("late %.3f" % rng.choice([0.002, 0.5, 2.5, 61.0]))
            frac = rng.choice([0.137, 0.25, 0.5, 0.731, 0.9])
            step = float(int(step)) + frac if step < te else te
            if step <= t:
                step = te
            sc.add("run %.6f" % step)
            t = step
        if kind == "add":
            uid, owner, text = pl
            cuts = None
            data = vcal([text]).encode()
            if rng.random() < 0.3:
                cuts = sorted(rng.sample(range(1, len(data)), min(3, len(data) - 1)))
            sc.req(owner, data, cuts)
            occ, more = occurrences(srv, text, t_end + 10)
            lst = incs.setdefault(uid, [])
            if lst and lst[-1].end is None:
                lst[-1].end = t
                lst[-1].end_conn = conn
            inc = sched.Incarnation(uid, owner, t, occ)
            inc.more = more
            inc.conn = conn
            lst.append(inc)
            conn += 1
        else:
            uid, owner = pl
            sc.req(owner, cancel_text(uid).encode())
            lst = incs.get(uid, [])
            if lst and lst[-1].end is None:
                lst[-1].end = t
                lst[-1].end_conn = conn
            conn += 1
        sc.add("dump")
    while t < t_end:
        step = min(t_end, t + rng.choice([span / 5.0, span / 2.0, span]))
        r = rng.random()
        if r < 0.2:
            dt = rng.choice([0.5, 3.0, 45.0, 130.0, span / 4.0])
            if t + dt < t_end:
                sc.add(("jump %.3f" if steps else "stall %.3f") % dt)
                t += dt
                stalls += 1
        elif r < 0.3:
            sc.add("late %.3f" % rng.choice([0.002, 0.5, 2.5, 61.0]))
        step = max(step, t + 0.1)
        sc.add("run %.6f" % step)
        t = step
    sc.add("dump")
    sc.add("get 1000 /sched")
    return sc, incs, t, {"now": now, "span": span, "ntasks": ntasks, "stalls": stalls, "clock_steps": bool(steps and stalls)}


def interleaving_sig(events, incs):
    """per-task word over {T(imer run), E(xit), L(ate run), A(dd/replace), C(ancel)} - measures schedule diversity"""
    vt = {e[1]: sched.vtodo_uid(e[2]) for e in events if e[0] == "VTODO"}
    words = {}
    pid_uid = {}
    for e in events:
        if e[0] == "SPAWN":
            u = vt.get(e[1])
            pid_uid[e[2]] = u
            words.setdefault(u, []).append("T")
        elif e[0] == "REAP":
            u = pid_uid.get(e[1])
            words.setdefault(u, []).append("E")
    sig = []
    for u in sorted(k for k in words if k):
        w = "".join(words[u])[:24]
        n = len(incs.get(u, []))
        sig.append(("R%d" % n) + w)
    return "|".join(sig)[:200]


def retirement_fails(events, incs):
    """tasks whose occurrences are all served and whose children are gone must be gone too; cancelled ones as well"""
    fails = []
    armed = [e for e in events if e[0] == "ARMED"]
    final = armed[-1][2] if armed else {}
    alive_pids = set()
    vt = {e[1]: sched.vtodo_uid(e[2]) for e in events if e[0] == "VTODO"}
    running = {}
    for e in events:
        if e[0] == "SPAWN" and not sched.has_norun(e[4]):
            running.setdefault(vt.get(e[1]), set()).add(e[1])
        elif e[0] == "EXIT":
            for s in running.values():
                s.discard(e[1])
    for uid, lst in incs.items():
        inc = lst[-1]
        if inc.end is not None:
            if uid in final:
                fails.append(("cancelled-task-still-armed", "%s was cancelled at %.3f but is still in the task table" % (uid, inc.end)))
            continue
        remaining = [o for o in inc.occ[inc.cursor:]]
        if getattr(inc, "more", False):
            continue       # occurrences beyond the end of the history: it has to stay
        if not remaining and not running.get(uid) and uid in final:
            if not inc.occ:
                fails.append(("task-without-future-occurrence-stays", "%s has no occurrence after its load time but stays in the task table" % uid))
            else:
                fails.append(("task-not-retired", "%s: all %d occurrences served and children reaped, still in the task table" % (uid, len(inc.occ))))
        if remaining and uid not in final and not inc.end:
            fails.append(("task-vanished", "%s has %d occurrences to come but is not in the task table" % (uid, len(remaining))))
    return fails


def run_history(root, srv, part, rng, tier):
    spool = tempfile.mkdtemp(prefix="c04-spool-")
    try:
        sc, incs, t_end, meta = build_history(rng, srv, spool, tier)
        part.evaluations += 1
        events, out, err, rc = sched.run_script(root, sc.text())
        if events is None or rc != 0 or not any(e[0] == "END" for e in events):
            head, frames = sched.san_summary(err)
            part.violation("daemon-crash/" + (">".join(frames[:2]) or "rc%s" % rc),
                           {"input": sc.text(), "summary": (head or err[-300:] or "no END marker")[:300], "log": err[-3000:]})
            return
        if sched.harness_overflow(events):
            part.inconclusive.append({"why": "history outgrew the harness's process table"})
            return
        fails = []
        stats = sched.check_schedule(events, incs, t_end, lambda k, d: fails.append((k, d)))
        fails += retirement_fails(events, incs)
        part.count("spawns_judged", stats["spawns_judged"])
        part.count("collapsed_runs_seen", stats["collapsed_runs"])
        part.count("late_runs_seen", stats["late_runs"])
        sig = interleaving_sig(events, incs)
        if stats["spawns_judged"]:
            part.nontrivial.add(sig)
        if meta.get("clock_steps"):
            part.count("histories_with_wall_clock_steps")
        for k, d in fails:
            if meta.get("clock_steps"):
                if k == "run-late":
                    # how soon libev learns of a step depends on its timerfd, which the harness does not provide:
                    # lateness after a step is not judged, that every occurrence is served (once) is
                    part.count("late_runs_after_a_clock_step_not_judged")
                    continue
                k = "clock-step/" + k
            part.violation(k, {"input": sc.text(), "detail": d, "meta": meta, "incs": sched.incs_to_json(incs), "t_end": t_end,
                               "summary": "%s (history: %d tasks over %ds, %d stalls)" % (d, meta["ntasks"], meta["span"], meta["stalls"])})
        if not fails and len(part.samples) < 2 and stats["spawns_judged"] > 3:
            part.sample({"tasks": meta["ntasks"], "span_s": meta["span"], "spawns": stats["spawns_judged"],
                         "collapsed": stats["collapsed_runs"], "interleaving": sig[:80]})
    finally:
        shutil.rmtree(spool, ignore_errors=True)


def worker(args):
    root, seed, tier, wid, nw, n = args
    part = Part()
    srv = CaseServer(build.exe(root, "asan", "h_strm"), wall_timeout=60)
    rng = rng_for(seed, PROP, wid)
    try:
        for _ in range(n):
            try:
                run_history(root, srv, part, rng, tier)
            except HarnessCrash as e:
                part.inconclusive.append({"why": "library harness: " + e.kind})
    finally:
        srv.close()
    return part.export()


def main(tier):
    root = build_or_die()
    if not os.path.exists(build.exe(root, "asan", "h_echsd")):
        print("HARNESS-FAILURE h_echsd not built")
        return 2
    run = Run(PROP, tier)
    total = 800 if tier == "quick" else 40000
    for p in pmap(worker, [(root, run.seed, tier, w, NCPU, total // NCPU) for w in range(NCPU)]):
        run.merge(p)
    run.cov["rule"] = ("histories of add/replace/cancel requests (own connection each, random chunking) for 1..12 tasks with secondly to "
                       "daily rules, COUNT/UNTIL, RDATE duplicates sharing a second, DTSTART in the past and before 2001; clock "
                       "advances with stalls, late wake-ups and (one history in eight) forward steps of the wall clock against the monotonic one, "
                       "after which lateness is not judged; finite tasks armed 255..1024 times; children with lifetimes from instant to never, exits interleaved "
                       "with timers; checker: every spawn justified by an unserved occurrence >= load time, not early, at the first "
                       "loop iteration after it, late occurrences collapse into one run, everything due is served by the end, tasks "
                       "retire; distinct = per-task words over {Timer run, Exit} x incarnation counts (interleaving signatures)")
    run.assumptions = ["the kernel side of process creation is a process table in the harness (posix_spawn/waitpid interposed)",
                       "occurrence lists come from the library harness, whose expansion C01 judges",
                       "libev's tie rule is not baked in: a run may happen at the first or second loop iteration at/after the occurrence"]
    return run.finish(min_eval=total // 2, min_nontrivial=30)


def replay(path):
    """re-run the recorded history on the current tree and judge it again"""
    w = json.load(open(path))
    root = build_or_die()
    print("recorded:", w.get("key"), "|", w.get("detail") or w.get("summary"))
    events, out, err, rc = sched.run_script(root, w["input"])
    if events is None or rc != 0 or not any(e[0] == "END" for e in events):
        print("now: the daemon harness dies (rc %s): %s" % (rc, err[-400:]))
        return 1
    if "incs" not in w:
        print("now: runs to the end (the witness carries no schedule model to judge against)")
        return 0 if w.get("key", "").startswith("daemon-crash") else 1
    incs = sched.incs_from_json(w["incs"])
    fails = []
    sched.check_schedule(events, incs, w["t_end"], lambda k, d: fails.append((k, d)))
    fails += retirement_fails(events, incs)
    for k, d in fails[:10]:
        print("now:", k, d)
    if not fails:
        print("now: the schedule rules hold on this history")
    return 1 if fails else 0

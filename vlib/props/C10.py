"""C10 -- iCalendar parsing is independent of how the bytes arrive; no byte sequence crashes the parser.
Oracle: equality of the canonical instruction dump with the single-chunk dump; ASan/UBSan; CPU budget."""
import json
import re

from .. import build, calgen, xxh
from ..common import (Run, Part, CaseServer, HarnessCrash, pmap, rng_for, build_or_die, NCPU, unesc)

PROP = "C10"
OPTS = "fields=1 n=3 budget=10000"
GEN = {"cheap_rules": True}
INTERESTING = set(b"\r\n \t\\:;,=")


_AUTO = re.compile(r"uid=echse/autouid-0x([0-9a-f]{8})@echse")
_UID = re.compile(r"uid=(\S+)")


def _key_uid(m):
    # a task is identified by the 32-bit hash of its UID; a generated UID is printed as that hash, unless a string with the
    # same hash has been interned by then - which depends on what has been read so far, not on what the task is
    a = re.match(r"echse/autouid-0x([0-9a-f]{8})@echse$", m.group(1))
    return "uid=#" + (a.group(1) if a else "%08x" % xxh.xxh32(unesc(m.group(1))))


def dump(srv, data, chunking):
    lines = srv.case(OPTS + (" " + chunking if chunking else ""), data)
    return [_UID.sub(_key_uid, l) for l in lines]


def cut_positions(data, rng, tier):
    pos = set()
    for i in range(1, len(data)):
        if data[i - 1] in INTERESTING or data[i] in INTERESTING:
            pos.add(i)
    pos = sorted(pos)
    cap = 160 if tier == "quick" else 100000
    if len(pos) > cap:
        # always keep every CR|LF|fold boundary, sample the rest
        must = [i for i in pos if data[i - 1] in b"\r\n" or data[i] in b"\r\n \t"]
        rest = [i for i in pos if i not in set(must)]
        if len(must) > cap:
            must = rng.sample(must, cap)
        pos = sorted(set(must) | set(rng.sample(rest, min(len(rest), max(0, cap - len(must))))))
    return pos


def chunkings(data, rng, tier):
    out = [("chunk=1", "1-byte"), ("chunk=2", "2-byte"), ("chunk=3", "3-byte"), ("chunk=7", "7-byte")]
    if len(data) > 4096:
        out.append(("chunk=4096", "4096-byte"))
    for i in cut_positions(data, rng, tier):
        out.append(("cuts=%d" % i, "single-cut"))
    for _ in range(8 if tier == "quick" else 50):
        k = rng.randint(2, 12)
        cuts = sorted(rng.sample(range(1, len(data)), min(k, len(data) - 1)))
        out.append(("cuts=" + ",".join(map(str, cuts)), "random-partition"))
    return out


def classify_cut(data, chunking):
    """what kind of place the (first) cut falls on, for classifier keys"""
    if not chunking.startswith("cuts="):
        return chunking.replace("=", "")
    i = int(chunking[5:].split(",")[0])
    a, b = data[i - 1:i], data[i:i + 1]
    if a == b"\r" and b == b"\n":
        return "between-CR-LF"
    if a == b"\n" and b in (b" ", b"\t"):
        return "between-LF-and-fold-space"
    if a == b"\n":
        return "after-LF"
    if b in (b"\n", b"\r"):
        return "before-EOL"
    if a == b"\\":
        return "after-backslash"
    if a in (b" ", b"\t") and data[i - 2:i - 1] == b"\n":
        return "after-fold-space"
    return "inside-line"


def first_diff(a, b):
    for k, (x, y) in enumerate(zip(a, b)):
        if x != y:
            return "line %d: %r vs %r" % (k, x[:120], y[:120])
    return "length %d vs %d; extra %r" % (len(a), len(b), (a[len(b):] or b[len(a):])[:2])


def mutate(rng, data):
    b = bytearray(data)
    for _ in range(rng.choice([1, 1, 2, 5, 20])):
        if not b:
            break
        k = rng.randrange(len(b))
        op = rng.random()
        if op < 0.25:
            b[k] = rng.randrange(256)
        elif op < 0.4:
            del b[k:k + rng.choice([1, 1, 5, 50])]
        elif op < 0.55:
            b[k:k] = bytes([rng.choice(b"\r\n \t\\:;,=\x00\x01\xff")]) * rng.choice([1, 1, 2, 30])
        elif op < 0.65:
            b[k:k] = b"BEGIN:" + rng.choice([b"VEVENT", b"VCALENDAR", b"VTODO", b"X"]) + b"\n"
        elif op < 0.75:
            b[k:k] = b"END:" + rng.choice([b"VEVENT", b"VCALENDAR", b"VTODO", b"X"]) + b"\n"
        elif op < 0.85:
            b = b[:k]                                     # truncation
        elif op < 0.92:
            j = rng.randrange(len(b))
            b[k:k] = b[j:j + rng.randint(1, 200)]         # splice
        else:
            b[k:k] = b"x" * rng.choice([1000, 1023, 1024, 1025, 1100, 5000])
    return bytes(b)


def run_calendar(srv, part, rng, tier, data, stratum, full):
    try:
        ref = dump(srv, data, "")
    except HarnessCrash as e:
        part.violation("%s/at-once/%s" % (stratum, e.kind), {"input": data.decode("latin1"), "chunking": "",
                                                             "summary": e.detail.split("\n")[0][:200], "log": e.detail[:3000]})
        return
    part.evaluations += 1
    ninstr = sum(1 for l in ref if l.startswith("I "))
    chs = chunkings(data, rng, tier) if full else [("chunk=1", "1-byte"), ("chunk=5", "5-byte")] + \
        [("cuts=%d" % rng.randrange(1, max(2, len(data))), "single-cut") for _ in range(3)]
    for ch, kind in chs:
        part.evaluations += 1
        try:
            got = dump(srv, data, ch)
        except HarnessCrash as e:
            part.violation("%s/%s/%s" % (stratum, kind, e.kind), {"input": data.decode("latin1"), "chunking": ch,
                                                                  "summary": e.detail.split("\n")[0][:200], "log": e.detail[:3000]})
            continue
        if got != ref:
            cls = classify_cut(data, ch)
            part.violation("%s/differs/%s" % (stratum, cls),
                           {"input": data.decode("latin1"), "chunking": ch, "reference": ref[:40], "observed": got[:40],
                            "summary": "chunking %s (%s) changes the parse: %s" % (ch[:40], cls, first_diff(ref, got))})
        elif ninstr:
            part.nontrivial.add("%s/%s/%s" % (stratum, kind, classify_cut(data, ch) if kind == "single-cut" else kind))
    part.count("instructions_in_reference", ninstr)
    if full and len(part.samples) < 1:
        part.sample({"calendar_bytes": len(data), "chunkings_compared": len(chs), "instructions": ninstr,
                     "head": data[:160].decode("latin1")})


def worker(args):
    root, seed, tier, wid, nw, ncal, ngarb = args
    part = Part()
    srv = CaseServer(build.exe(root, "asan", "h_strm"), wall_timeout=120)
    rng = rng_for(seed, PROP, wid)
    try:
        for k in range(ncal):
            r = rng.random()
            if r < 0.6:
                data, _ = calgen.gen_calendar(rng, opts=GEN)
                stratum = "wellformed"
            elif r < 0.75:
                # escapes and very long lines
                data, _ = calgen.gen_calendar(rng, nev=rng.choice([1, 2]), opts=GEN)
                esc = rng.choice([b"SUMMARY:echo a\\, b\\; c\\\\d \\n e \\N f\n", b"DESCRIPTION:" + b"y" * rng.choice([990, 1015, 1022, 1023, 1024, 1030, 1100]) + b"\n",
                                  b"LOCATION:/tmp/a\\,b\n", b"X-ECHS-OFILE:/tmp/o\\\\p\n", b"SUMMARY:trailing backslash\\\n"])
                data = data.replace(b"END:VEVENT", esc + b"END:VEVENT", 1)
                stratum = "escapes-longlines"
            elif r < 0.9:
                # two or three calendars back to back, as a client reusing its connection sends them
                parts = [calgen.gen_calendar(rng, nev=rng.choice([1, 2]), opts=GEN)[0] for _ in range(rng.choice([2, 2, 3]))]
                # ... any of which may carry a METHOD, including those the daemon has no use for
                for i in range(len(parts)):
                    if rng.random() < 0.5:
                        meth = rng.choice([b"PUBLISH", b"REQUEST", b"REPLY", b"ADD", b"CANCEL", b"REFRESH", b"COUNTER", b"DECLINECOUNTER"])
                        parts[i] = parts[i].replace(b"VERSION:2.0", b"VERSION:2.0\nMETHOD:" + meth, 1)
                        if meth == b"REPLY" and rng.random() < 0.6:
                            parts[i] = parts[i].replace(b"END:VEVENT", b"REQUEST-STATUS:" + rng.choice([b"2.0;Success", b"5.1;Fail", b"3.1;Hm"]) + b"\nEND:VEVENT")
                data = rng.choice([b"", b"\n", b"\r\n"]).join(parts)
                stratum = "multi-calendar"
                if rng.random() < 0.25:
                    # something in front of the first BEGIN: a byte order mark, blank lines, a stray line
                    data = rng.choice([b"\xef\xbb\xbf", b"\xef\xbb\xbf\r\n", b"\n\n", b" ", b"\xef\xbb", b"\xef", b"X-STRAY:line\n", b"\xff\xfe"]) + data
                    stratum = "preamble"
            else:
                # cancel / reply methods
                d1, m = calgen.gen_calendar(rng, nev=rng.choice([1, 3]), opts=GEN)
                meth = rng.choice([b"CANCEL", b"REPLY"])
                data = d1.replace(b"VERSION:2.0", b"VERSION:2.0\nMETHOD:" + meth, 1)
                if meth == b"REPLY":
                    data = data.replace(b"END:VEVENT", b"REQUEST-STATUS:" + rng.choice([b"2.0;Success", b"5.1;Fail"]) + b"\nEND:VEVENT")
                else:
                    data = data.replace(b"END:VEVENT", b"RECURRENCE-ID:20200101T000000Z" + rng.choice([b"", b"+"]) + b"\nEND:VEVENT", 1)
                stratum = "methods"
            run_calendar(srv, part, rng, tier, data, stratum, full=True)
        for k in range(ngarb):
            r = rng.random()
            if r < 0.75:
                base, _ = calgen.gen_calendar(rng, nev=rng.choice([1, 2]), opts=GEN)
                data = mutate(rng, base)
                stratum = "mutated"
            else:
                data = bytes(rng.randrange(256) for _ in range(rng.choice([1, 10, 100, 2000])))
                if rng.random() < 0.5:
                    data = b"BEGIN:VCALENDAR\nBEGIN:VEVENT\n" + data
                stratum = "garbage"
            if not data:
                continue
            run_calendar(srv, part, rng, tier, data, stratum, full=False)
    finally:
        srv.close()
    return part.export()


def main(tier):
    root = build_or_die()
    run = Run(PROP, tier)
    ncal = 640 if tier == "quick" else 6000
    ngarb = 16000 if tier == "quick" else 200000
    for p in pmap(worker, [(root, run.seed, tier, w, NCPU, ncal // NCPU, ngarb // NCPU) for w in range(NCPU)]):
        run.merge(p)
    run.cov["rule"] = ("well-formed calendars (folded lines, CRLF/LF, long values, nested/unknown components, METHOD CANCEL/REPLY, "
                       "escapes, 1000..1100-byte lines, 2-3 calendars back to back) x chunkings {1,2,3,7,4096-byte, every cut at a "
                       "CR|LF|fold|backslash|colon boundary%s, random partitions}; mutated/truncated/spliced calendars and raw "
                       "garbage at once, byte-wise and with random cuts; every pull under ASan+UBSan and a CPU budget; verdict = "
                       "dump differs from the single-chunk dump, sanitizer report, or budget exceeded; distinct = (stratum, chunking "
                       "kind, kind of place the cut falls on) with >= 1 instruction parsed"
                       % (" (sampled to 160 per calendar)" if tier == "quick" else " (enumerated)"))
    run.assumptions = ["the dump covers verb, UID, every task field and the first 3 occurrences of each task",
                       "push/pull/last_pull are driven exactly like _inject_fd/echsd do; the previous chunk stays alive until the next push"]
    return run.finish(min_eval=20000, min_nontrivial=15)


def replay(path):
    w = json.load(open(path))
    root = build_or_die()
    srv = CaseServer(build.exe(root, "asan", "h_strm"))
    data = w["input"].encode("latin1")
    try:
        ref = dump(srv, data, "")
        got = dump(srv, data, w.get("chunking", "chunk=1"))
    except HarnessCrash as e:
        print("VIOLATION property=%s replay=%s\n  %s" % (PROP, path, e.detail[:300]))
        return 1
    finally:
        srv.close()
    if ref != got:
        print("VIOLATION property=%s replay=%s\n  %s" % (PROP, path, first_diff(ref, got)))
        return 1
    print("held on replayed input")
    return 0

"""C14 -- a job outliving its DTEND/DURATION/DUE limit is killed by the deadline.
End to end over the real programs: user file -> echsq -n add -> echsd (harness, virtual clock) ->
execution request -> real echsx (alarm() logged and time-scaled by a link-time shim) -> real child."""
import datetime as D
import json
import os
import re
import shutil
import subprocess
import tempfile
import time

from .. import build, sched, echsx
from ..common import Run, Part, pmap, rng_for, build_or_die, NCPU, SAN_ENV
from .C04 import fmt_dt

PROP = "C14"
LIMITS = [1, 2, 3, 5, 10, 59, 60, 61, 90, 119, 600, 3599, 3600, 3601, 7200, 86399, 86400, 86401, 90061, 172800, 604800, 604801,
          1209600, 2591999, 2592000, 4000000, 6048000]


def spell_duration(rng, L):
    """an ISO 8601 duration worth L seconds, in one of the forms the RFC allows"""
    w, r = divmod(L, 604800)
    d, r2 = divmod(L, 86400)
    forms = ["PT%dS" % L]
    if L % 60 == 0:
        forms.append("PT%dM" % (L // 60))
    if L % 3600 == 0:
        forms.append("PT%dH" % (L // 3600))
    if L % 86400 == 0:
        forms.append("P%dD" % (L // 86400))
    if L % 604800 == 0:
        forms.append("P%dW" % (L // 604800))
    H, r3 = divmod(L % 86400, 3600)
    M, S = divmod(r3, 60)
    full = "P" + ("%dD" % d if d else "") + ("T" + ("%dH" % H if H else "") + ("%dM" % M if M else "") + ("%dS" % S if S else "") if (H or M or S) else "")
    if full != "P":
        forms.append(full)
    forms.append("PT%dM%dS" % (L // 60, L % 60))
    forms.append("PT%dH%dM%dS" % (L // 3600, (L % 3600) // 60, L % 60))
    forms.append("P%dDT%dH%dM%dS" % (d, H, M, S))
    return rng.choice(forms)


def zoned(t, zone):
    """epoch second T as the wall-clock text of ZONE, or None unless that reading names T and nothing else"""
    from .C07 import local_candidates
    import zoneinfo
    z = zoneinfo.ZoneInfo(zone)
    u = D.datetime(1970, 1, 1) + D.timedelta(seconds=t)
    loc = u.replace(tzinfo=D.timezone.utc).astimezone(z).replace(tzinfo=None)
    return loc.strftime("%Y%m%dT%H%M%S") if local_candidates(z, loc) == [u] else None


def gen_event(rng, i, now, job_exe, scale_target, near=None):
    L = rng.choice(LIMITS + [rng.randint(1, 200), rng.randint(1, 5000000)])
    start = int(now) + 60 * rng.randint(1, 3) + rng.randint(0, 59)
    kind = rng.choice(["dtend", "duration", "duration", "dtend-date"])
    if near is not None and near[0] is None and rng.random() < 0.7:
        # a month or a year (or a leap day) ends shortly after NOW: windows that reach across it, as DTEND - DTSTART
        tr = near[1]
        L = rng.choice([1, 600, 3600, 5400, 7200, 86400, 90000, 172800, max(1, tr - start), max(1, tr - start + 1), tr - start + 1800, tr - start + 86400, tr - start + 86401])
        kind = "dtend"
    elif near is not None and near[0] is not None and rng.random() < 0.7:
        # the window is written in wall-clock times of a zone whose clocks change shortly after NOW: the limit is the time
        # that really passes between the two, whatever the clocks show
        zone, tr = near
        L = rng.choice([1, 59, 600, 3599, 3600, 3601, 5400, 7200, 7201, 86400, 90000, max(1, tr - start), max(1, tr - start + 1), tr - start + 1800])
        ze = rng.choice([zone, zone, zone, "Asia/Tokyo", None])
        a, b = zoned(start, zone), (zoned(start + L, ze) if ze else fmt_dt(start + L))
        if a and b:
            kind = "dtend-zoned"
    outlives = rng.random() < 0.6
    uid = "d%d@verif" % i
    lines = ["BEGIN:VEVENT", "UID:" + uid]
    # the job: either sleeps far beyond the (scaled) limit or ends well before it
    beat = None
    if outlives:
        cmd = "%s o:3 s:6000 o:3" % job_exe
        if rng.random() < 0.5:
            # the job is more than one process: a helper it forks keeps a heartbeat file going
            beat = "beat%d.txt" % i
            cmd = "%s o:3 f:%s s:6000 o:3" % (job_exe, beat)
    else:
        cmd = "%s o:3 s:10 x:%d" % (job_exe, rng.choice([0, 0, 3]))
    lines.append("SUMMARY:" + cmd)
    if kind == "dtend-date":
        days = rng.choice([1, 2, 7])
        L = days * 86400
        d0 = D.datetime.utcfromtimestamp(start + 86400).date()
        lines.append("DTSTART;VALUE=DATE:" + d0.strftime("%Y%m%d"))
        lines.append("DTEND;VALUE=DATE:" + (d0 + D.timedelta(days=days)).strftime("%Y%m%d"))
        start = int((D.datetime(d0.year, d0.month, d0.day) - D.datetime(1970, 1, 1)).total_seconds())
        spec = "DTEND(date)-DTSTART(date)=%dd" % days
    elif kind == "dtend-zoned":
        lines.append("DTSTART;TZID=%s:%s" % (zone, a))
        lines.append(("DTEND;TZID=%s:%s" % (ze, b)) if ze else "DTEND:" + b)
        spec = "%s = %ds%s" % (" ".join(lines[-2:]), L, " across the change of clocks" if start < tr <= start + L else "")
    elif kind == "dtend":
        lines.append("DTSTART:" + fmt_dt(start))
        lines.append("DTEND:" + fmt_dt(start + L))
        spec = "DTEND-DTSTART=%ds" % L
    else:
        sp = spell_duration(rng, L)
        lines.append("DTSTART:" + fmt_dt(start))
        lines.append("DURATION:" + sp)
        spec = "DURATION:" + sp
    if rng.random() < 0.4:
        lines.append("RRULE:FREQ=DAILY;COUNT=2")
    lines.append("END:VEVENT")
    return {"uid": uid, "L": L, "start": start, "text": "\n".join(lines), "outlives": outlives, "spec": spec, "kind": kind, "beat": beat}


def pipeline(root, part, rng, tier):
    d = tempfile.mkdtemp(prefix="c14-")
    try:
        now = float(rng.randint(1200000000, 1600000000)) + 0.5
        near = None
        if rng.random() < 0.35:
            from .C07 import transitions
            zone = rng.choice(["Europe/Berlin", "America/New_York", "Australia/Sydney", "America/Santiago", "Australia/Lord_Howe", "Europe/London"])
            trs = [int((t - D.datetime(1970, 1, 1)).total_seconds()) for t in transitions(zone)]
            tr = rng.choice([t for t in trs if 1200000000 < t < 1600000000])
            now = float(tr - rng.choice([300, 1000, 3000, 3700, 7000, 20000])) + 0.5
            near = (zone, tr)
        elif rng.random() < 0.3:
            import calendar
            y = rng.randint(2008, 2020)
            mo, dom = rng.choice([(1, 1), (2, 1), (2, 28), (2, 29) if y % 4 == 0 else (2, 28), (3, 1), (12, 31), (rng.randint(1, 12), 1)])
            tr = calendar.timegm((y, mo, dom, 0, 0, 0))
            now = float(tr - rng.choice([300, 1000, 3000, 3700, 7000])) + 0.5
            near = (None, tr)
        job = build.exe(root, "asan", "h_job")
        evs = [gen_event(rng, i, now, job, 0.25, near) for i in range(rng.choice([1, 3, 6]))]
        fn = os.path.join(d, "in.ics")
        open(fn, "w").write("BEGIN:VCALENDAR\nVERSION:2.0\n" + "\n".join(e["text"] for e in evs) + "\nEND:VCALENDAR\n")
        env = dict(os.environ)
        env.update(SAN_ENV)
        q = subprocess.run([build.exe(root, "asan", "echsq"), "-n", "add", fn], stdout=subprocess.PIPE, stderr=subprocess.PIPE, env=env, timeout=120, cwd=d)
        if q.returncode != 0 or b"BEGIN:VEVENT" not in q.stdout:
            part.violation("echsq-add-fails", {"input": open(fn).read(), "summary": "echsq -n add: rc %d %s" % (q.returncode, q.stderr.decode("latin1")[-200:])})
            return
        spool = os.path.join(d, "spool")
        os.mkdir(spool)
        sc = sched.Script(spool, now)
        sc.add("lives -1")
        sc.req(0, q.stdout)
        t_end = max(e["start"] for e in evs) + 2
        sc.add("run %.6f" % t_end)
        events, out, err, rc = sched.run_script(root, sc.text(), iter_log=False)
        if events is None or rc != 0:
            head, frames = sched.san_summary(err)
            part.violation("daemon-crash/" + (">".join(frames[:2]) or "rc%s" % rc), {"input": sc.text(), "summary": (head or err[-300:])[:300]})
            return
        vt = {}
        for e in events:
            if e[0] == "VTODO":
                vt.setdefault(sched.vtodo_uid(e[2]), e[2])
        for ev in evs:
            part.evaluations += 1
            L = ev["L"]
            if near is not None and near[0] is None and ev["kind"] == "dtend" and ev["start"] < near[1] <= ev["start"] + L:
                part.count("windows_across_the_end_of_a_month_or_year")
            if ev["kind"] == "dtend-zoned":
                part.count("windows_in_wall_clock_times")
                if "across" in ev["spec"]:
                    part.count("windows_across_a_change_of_clocks")
            wit = {"input": open(fn).read(), "submitted": q.stdout.decode("latin1")[:1500], "event": ev["text"]}
            req = vt.get(ev["uid"])
            if req is None:
                part.violation("no-execution-request", dict(wit, summary="%s (%s): the daemon never started it" % (ev["uid"], ev["spec"])))
                continue
            dl = sched.vtodo_field(req, "DURATION")
            got = echsx.iso_duration_seconds(dl) if dl is not None else None
            form = ev["kind"]
            if got is None or abs(got - L) > 1:
                part.violation("limit-lost/daemon-to-executor/" + form,
                               dict(wit, request=req, summary="%s: limit %d s, the execution request says DURATION:%s" % (ev["spec"], L, dl)))
                continue
            # the real executor on the real request; time runs 1/scale times faster for alarm()
            target = 0.25
            scale = target / L
            wd = os.path.join(d, "wd")
            os.makedirs(wd, exist_ok=True)
            req2 = re.sub(r"^LOCATION:.*$", "LOCATION:" + wd, req, flags=re.M)
            r = echsx.run_echsx(root, req2, wd, timescale=scale)
            wit["request"] = req2
            wit["journal"] = r.journal[-1500:]
            wit["shim_log"] = r.log[:20]
            if r.rc is None or "AddressSanitizer" in r.stderr or "runtime error" in r.stderr:
                part.violation("executor-crash", dict(wit, summary="echsx dies on the request: %s" % r.stderr[-300:]))
                continue
            armed = [a for a in r.alarms if a > 0]
            if not armed:
                part.violation("limit-lost/executor-sets-no-alarm/" + form, dict(wit, summary="%s: echsx runs the job without any deadline" % ev["spec"]))
                continue
            if any(abs(a - L) > 1 for a in armed):
                bad = [a for a in armed if abs(a - L) > 1][0]
                part.violation("limit-wrong/executor-alarm/" + form, dict(wit, summary="%s: limit %d s, echsx arms alarm(%d)" % (ev["spec"], L, bad)))
                continue
            sig = echsx.jfield(r.journal, "X-SIGNAL")
            xs = echsx.jfield(r.journal, "X-EXIT-STATUS")
            real = echsx.jfield(r.journal, "X-REAL-TIME")
            real = float(real.rstrip("s")) if real else None
            part.count("requests_executed")
            if ev["outlives"]:
                part.count("jobs_outliving_their_limit")
                if sig != "24":
                    part.violation("not-killed/" + form, dict(wit, summary="%s: the job outlives its limit (ran %s s, limit is %.2f s in scaled time), journal says signal %s status %s"
                                                            % (ev["spec"], real, target, sig, xs)))
                # echsx arms the alarm before it prepares and spawns the job and stamps the start afterwards, so the
                # journal's real time may be short of the limit by the preparation time; the exact value of the limit
                # has been judged on the alarm() argument above, here the point is that the kill happens, and in time
                elif real is not None and target + 1.0 < real < 5.0:
                    # killed by the deadline's signal, but late: a loaded machine, not a wrong deadline (that was judged above)
                    part.inconclusive.append({"why": "kill arrived %.2f s after a %.2f s limit (machine load)" % (real, target)})
                elif real is not None and real < target * 0.2:
                    # the alarm is armed (with the right argument, judged above) before echsx prepares and spawns the job:
                    # on a loaded machine the scaled quarter of a second can be over by then.  Not a verdict on the code
                    part.inconclusive.append({"why": "the scaled deadline (%.2f s) ran out while echsx was still preparing the job (machine load)" % target})
                elif real is None or real >= 5.0:
                    part.violation("killed-at-wrong-time/" + form, dict(wit, summary="%s: killed after %s s, the (scaled) limit is %.2f s" % (ev["spec"], real, target)))
                else:
                    part.nontrivial.add("killed %s L=%d" % (form, L))
                if ev.get("beat") and sig == "24":
                    # the deadline is for the job, not for the one process echsx started
                    bf = os.path.join(wd, ev["beat"])
                    n1 = os.path.getsize(bf) if os.path.exists(bf) else 0
                    time.sleep(0.3)
                    n2 = os.path.getsize(bf) if os.path.exists(bf) else 0
                    part.count("jobs_of_several_processes_killed")
                    if n2 > n1:
                        part.violation("killed-in-part/" + form, dict(wit, summary="%s: the job is reported killed by its deadline, but a process it forked is still running %.1f s later (heartbeat %d -> %d)"
                                                                  % (ev["spec"], 0.3, n1, n2)))
            else:
                part.count("jobs_ending_before_their_limit")
                want = re.search(r"x:(\d+)", ev["text"])
                want = want.group(1) if want else "0"
                if sig == "24" and real is not None and real < 0.05:
                    part.inconclusive.append({"why": "the scaled deadline ran out while echsx was still preparing a short job (machine load)"})
                elif sig is not None or xs != want:
                    part.violation("short-job-disturbed/" + form, dict(wit, summary="%s: a job ending before its limit is reported with signal %s status %s, expected exit %s"
                                                                      % (ev["spec"], sig, xs, want)))
                else:
                    part.nontrivial.add("unaffected %s L=%d" % (form, L))
            if len(part.samples) < 2 and ev["outlives"] and sig == "24":
                part.sample({"limit": ev["spec"], "seconds": L, "request_duration": dl, "alarm_armed": armed[0], "signal": sig, "scaled_lifetime_s": real})
    finally:
        shutil.rmtree(d, ignore_errors=True)


def due_case(root, part, rng):
    """execution requests with DUE go to echsx directly (the daemon never writes them)"""
    d = tempfile.mkdtemp(prefix="c14due-")
    try:
        job = build.exe(root, "asan", "h_job")
        L = rng.choice([-86400, -5, -1, 0, 2, 3, 10, 61, 3600, 86400, 100000, rng.randint(2, 1000000)])
        outlives = rng.random() < 0.5
        cmd = "%s o:3 s:6000" % job if outlives else "%s o:3 s:10" % job
        now = int(time.time())
        due = now + L
        dueline = "DUE:" + fmt_dt(due)
        if rng.random() < 0.4:
            # the same instant as a wall-clock time somewhere
            zone = rng.choice(["Europe/Berlin", "America/New_York", "Asia/Tokyo", "Australia/Sydney", "Asia/Kolkata", "America/Los_Angeles"])
            loc = zoned(due, zone)
            if loc:
                dueline = "DUE;TZID=%s:%s" % (zone, loc)
                part.count("due_times_in_a_zone")
        req = ("BEGIN:VCALENDAR\nVERSION:2.0\nBEGIN:VTODO\nUID:due@verif\nSUMMARY:%s\nX-ECHS-SETUID:0\nX-ECHS-SETGID:0\nX-ECHS-SHELL:/bin/sh\n"
               "LOCATION:%s\n%s\nEND:VTODO\nEND:VCALENDAR\n" % (cmd, d, dueline))
        part.evaluations += 1
        target = 0.25
        scale = target / max(L, 1)
        r = echsx.run_echsx(root, req, d, timescale=scale)
        wit = {"input": req, "journal": r.journal[-1500:], "shim_log": r.log[:20], "stderr": r.stderr[-300:]}
        if r.rc is None or "AddressSanitizer" in r.stderr or "runtime error" in r.stderr:
            part.violation("executor-crash", dict(wit, summary="echsx dies on a DUE request: %s" % r.stderr[-300:]))
            return
        elapsed = int(time.time()) - now
        if L <= 0:
            part.count("overdue_requests")
            if r.spawns:
                part.violation("overdue-request-executed", dict(wit, summary="DUE %d s in the past, the job is run all the same" % -L))
            elif echsx.jfield(r.journal, "STATUS") != "CANCELLED":
                part.violation("overdue-request-not-reported", dict(wit, summary="DUE %d s in the past: no CANCELLED journal entry" % -L))
            else:
                part.nontrivial.add("overdue refused")
            return
        armed = [a for a in r.alarms if a > 0]
        if not r.spawns and L <= 3:
            return          # the second ticked over between our clock reading and echsx's: refused rightly
        if not armed:
            part.violation("limit-lost/executor-sets-no-alarm/due", dict(wit, summary="DUE in %d s: echsx runs the job without a deadline" % L))
            return
        if not (L - 2 - elapsed <= armed[0] <= L):
            part.violation("limit-wrong/executor-alarm/due", dict(wit, summary="DUE in %d s, echsx arms alarm(%d)" % (L, armed[0])))
            return
        sig = echsx.jfield(r.journal, "X-SIGNAL")
        xs = echsx.jfield(r.journal, "X-EXIT-STATUS")
        if outlives and sig != "24":
            part.violation("not-killed/due", dict(wit, summary="DUE in %d s: job outlives it, journal says signal %s status %s" % (L, sig, xs)))
        elif not outlives and (sig is not None or xs != "0"):
            part.violation("short-job-disturbed/due", dict(wit, summary="DUE in %d s: short job reported with signal %s status %s" % (L, sig, xs)))
        else:
            part.nontrivial.add("due %s L=%d" % ("killed" if outlives else "unaffected", L))
            part.count("due_requests_executed")
    finally:
        shutil.rmtree(d, ignore_errors=True)


def worker(args):
    root, seed, tier, wid, nw, n = args
    part = Part()
    rng = rng_for(seed, PROP, wid)
    for i in range(n):
        if i % 4 == 3:
            due_case(root, part, rng)
        else:
            pipeline(root, part, rng, tier)
    return part.export()


def main(tier):
    root = build_or_die()
    for h in ("h_echsd", "h_echsx", "h_job"):
        if not os.path.exists(build.exe(root, "asan", h)):
            print("HARNESS-FAILURE %s not built" % h)
            return 2
    run = Run(PROP, tier)
    total = 128 if tier == "quick" else 4800
    for p in pmap(worker, [(root, run.seed, tier, w, NCPU, total // NCPU) for w in range(NCPU)]):
        run.merge(p)
    run.cov["rule"] = ("limits of 1 s .. 10 weeks (boundary values around minute/hour/day/week, 2^31 ms, random) expressed as DTEND, as "
                       "date-valued DTEND, and as DURATION in every ISO form that spells the value (S, M, H, D, W and combinations), single "
                       "and recurring events; path: file -> echsq -n add -> echsd harness -> execution request -> real echsx -> real "
                       "child; oracles: DURATION of the request == limit, alarm() argument in echsx == limit (+-1 s), a child that "
                       "sleeps 6 s is killed with SIGXCPU at the limit in scaled time (limit mapped to 0.25 s, +1 s tolerance) and the "
                       "journal says so, a child ending before the limit is reported with its own exit status; DUE requests go to "
                       "echsx directly: alarm == due - now, overdue ones are refused and journalled")
    run.assumptions = ["alarm() is interposed at link time in echsx: the argument is logged (exact oracle) and the timer runs scaled so that "
                       "week-long limits can be watched expiring; everything else in echsx is the real code, children are real processes",
                       "the daemon side runs on the virtual clock of the C04 harness"]
    return run.finish(min_eval=total // 2, min_nontrivial=10)


def replay(path):
    w = json.load(open(path))
    print(w.get("input", "")[:3000])
    print(w.get("summary"))
    return 1

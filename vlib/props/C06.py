"""C06 -- the queue survives restart and crash; a checkpoint file is never torn.
The echsd harness (C04) interposes the file system calls of the checkpoint.  A history of acknowledged
add/replace/cancel requests of several users is run once to count those calls, then again and again
with the process killed before the k-th call, or with the k-th call failing; after each, the spool
directory is inspected and a fresh daemon process is started on it.  The oracle is a snapshot model:
what a user's file must contain is the user's task map at the moment the file was last renamed into
place."""
import glob
import json
import os
import re
import shutil
import tempfile

from .. import build, sched
from ..common import Run, Part, pmap, rng_for, build_or_die, NCPU
from .C04 import fmt_dt

PROP = "C06"
SPOOL = "@SPOOL@"


def vevent(uid, ver, dtstart, recurring, maxsim):
    l = ["BEGIN:VEVENT", "UID:" + uid, "SUMMARY:job v%d" % ver, "DTSTART:" + fmt_dt(dtstart)]
    if recurring:
        l.append("RRULE:FREQ=MINUTELY")
    if maxsim is not None:
        l.append("X-ECHS-MAX-SIMUL:%d" % maxsim)
    l.append("END:VEVENT")
    return "\n".join(l)


def vcal(evs, method=None):
    return "BEGIN:VCALENDAR\nVERSION:2.0\n" + ("METHOD:%s\n" % method if method else "") + "\n".join(evs) + "\nEND:VCALENDAR\n"


def build_history(rng):
    now = float(rng.randint(1100000000, 1600000000)) + 0.5
    nusers = rng.choice([1, 2, 3, 3, 8, 17, 20])
    users = [1000 + i for i in range(nusers)]
    lines = ["spool " + SPOOL, "now %.6f" % now, "start", "lives 0.01"]
    ops = []
    t = now
    ver = 0
    known = {u: [] for u in users}
    nops = rng.choice([3, 8, 20, 40]) if nusers < 8 else rng.choice([20, 45, 80])
    burst = rng.random() < 0.25
    if burst:
        # every user gets a queue file, then more users than there are dirty slots change something within one
        # checkpoint interval, some of them by emptying their queue
        nusers = rng.choice([16, 17, 20, 24])
        users = [1000 + i for i in range(nusers)]
        known = {u: [] for u in users}
        for u in users:
            uid = "q%d.0@verif" % u
            known[u].append(uid)
            ver += 1
            dt = int(t) + 3600
            lines.append("req %d %s" % (u, sched.hexs(vcal([vevent(uid, ver, dt, True, None)]))))
            ops.append({"k": "add", "peer": u, "items": [{"uid": uid, "ver": ver, "rec": True, "dt": dt, "maxsim": None}]})
        t += 61.0
        lines.append("run %.6f" % t)
        order = list(users)
        rng.shuffle(order)
        for u in order[:rng.randint(15, nusers)]:
            if rng.random() < 0.3:
                evs = ["BEGIN:VEVENT\nUID:%s\nSTATUS:CANCELLED\nEND:VEVENT" % x for x in known[u]]
                lines.append("req %d %s" % (u, sched.hexs(vcal(evs, "CANCEL"))))
                ops.append({"k": "cancel", "peer": u, "uids": list(known[u])})
            else:
                uid = "q%d.%d@verif" % (u, len(known[u]))
                known[u].append(uid)
                ver += 1
                dt = int(t) + 3600
                lines.append("req %d %s" % (u, sched.hexs(vcal([vevent(uid, ver, dt, True, None)]))))
                ops.append({"k": "add", "peer": u, "items": [{"uid": uid, "ver": ver, "rec": True, "dt": dt, "maxsim": None}]})
        nops = rng.choice([0, 3, 10])
    for _ in range(nops):
        r = rng.random()
        u = rng.choice(users)
        if r < 0.55:
            items, evs = [], []
            for _ in range(rng.choice([1, 1, 2, 4])):
                if known[u] and rng.random() < 0.3:
                    uid = rng.choice(known[u])
                else:
                    uid = "q%d.%d@verif" % (u, len(known[u]))
                    known[u].append(uid)
                ver += 1
                rec = rng.random() < 0.85
                dt = int(t) + (60 * rng.randint(1, 3) if rec else rng.randint(5, 40))
                ms = rng.choice([None, None, None, 1, 2, 7])
                evs.append(vevent(uid, ver, dt, rec, ms))
                items.append({"uid": uid, "ver": ver, "rec": rec, "dt": dt, "maxsim": ms})
            lines.append("req %d %s" % (u, sched.hexs(vcal(evs))))
            ops.append({"k": "add", "peer": u, "items": items})
        elif r < 0.7:
            if not known[u]:
                continue
            uids = [rng.choice(known[u]) for _ in range(rng.choice([1, 1, 2]))]
            if rng.random() < 0.15:
                uids = list(known[u])          # the user's whole queue goes
            evs = ["BEGIN:VEVENT\nUID:%s\nSTATUS:CANCELLED\nEND:VEVENT" % x for x in uids]
            lines.append("req %d %s" % (u, sched.hexs(vcal(evs, "CANCEL"))))
            ops.append({"k": "cancel", "peer": u, "uids": uids})
        elif r < 0.8:
            lines.append("get %d /queue" % u)
            ops.append({"k": "get", "peer": u})
        else:
            t += rng.choice([5.0, 30.0, 61.0, 61.0, 130.0])
            lines.append("run %.6f" % t)
    if rng.random() < 0.5:
        t += rng.choice([1.0, 61.0])
        lines.append("run %.6f" % t)
    clean = rng.random() < 0.6
    if clean:
        lines.append("shutdown")
    lines.append("fscount")
    return lines, ops, t, {"now": now, "users": nusers, "nops": len(ops), "clean_shutdown": clean, "burst": burst}


def with_inject(lines, inj):
    out = list(lines)
    if inj:
        out.insert(3, inj)
    return out


def model_walk(events, ops, init=None, init_snaps=None):
    """returns (snapshots per user as of its last publish, final model, number of publishes, clean shutdown seen)"""
    model = {u: dict(v) for u, v in (init or {}).items()}
    snaps = {k: {u: dict(v) for u, v in s.items()} for k, s in (init_snaps or {}).items()}
    published = 0
    down = False
    for e in events:
        if e[0] == "REQ":
            op = ops[e[1]] if e[1] < len(ops) else None
            if op is None:
                continue
            if op["k"] == "add":
                for it in op["items"]:
                    model[it["uid"]] = {"owner": op["peer"], "cmd": "job v%d" % it["ver"], "rec": it["rec"], "dt": it["dt"],
                                        "maxsim": 63 if it["maxsim"] is None else it["maxsim"]}
            elif op["k"] == "cancel":
                for u in op["uids"]:
                    if u in model and model[u]["owner"] == op["peer"]:
                        del model[u]
        elif e[0] == "SPAWN":
            pass
        elif e[0] == "PUBLISHED":
            m = re.match(r"echsq_(\d+)\.ics", e[1])
            if m:
                user = int(m.group(1))
                snaps[user] = {u: dict(v) for u, v in model.items() if v["owner"] == user}
                published += 1
        elif e[0] == "DOWN":
            down = True
    return snaps, model, published, down


def retire_oneshots(events, model_fn):
    pass


def file_complete(text):
    """a complete iCalendar object: framed, components balanced, nothing after the end"""
    if not text.startswith("BEGIN:VCALENDAR\n"):
        return "does not start with BEGIN:VCALENDAR"
    if not text.endswith("END:VCALENDAR\n"):
        return "does not end with END:VCALENDAR"
    depth = 0
    for l in text.split("\n"):
        if l == "BEGIN:VEVENT":
            if depth:
                return "VEVENT inside VEVENT"
            depth = 1
        elif l == "END:VEVENT":
            if not depth:
                return "END:VEVENT without BEGIN"
            depth = 0
    if depth:
        return "unterminated VEVENT"
    if text.count("BEGIN:VCALENDAR") != 1 or text.count("END:VCALENDAR") != 1:
        return "more than one calendar frame"
    return None


def inspect(root, spool, snaps, t_reload, fail, tag):
    """look at the spool as a restarted daemon would"""
    nfiles = 0
    for fn in sorted(glob.glob(os.path.join(spool, "echsq_*.ics"))):
        nfiles += 1
        text = open(fn, "rb").read().decode("latin1")
        why = file_complete(text)
        if why:
            fail("torn-file/" + tag, "%s %s (%d bytes)" % (os.path.basename(fn), why, len(text)))
    # tasks without a future occurrence are dropped at the first turn of the loop
    script = "spool %s\nnow %.6f\nstart\nrun %.6f\ndump\n" % (spool, t_reload, t_reload + 0.5)
    ev, out, err, rc = sched.run_script(root, script, iter_log=False)
    if ev is None or rc != 0:
        head, frames = sched.san_summary(err)
        fail("reload-crash/" + (">".join(frames[:2]) or "rc%s" % rc), "the restarted daemon dies on the spool directory: %s" % (head or err[-200:]))
        return nfiles, 0
    armed = [e for e in ev if e[0] == "ARMED"]
    got = {u: (int(d["owner"]), d["cmd"], int(d["maxsim"])) for u, d in (armed[-1][2] if armed else {}).items()}
    want = {}
    for user, snap in snaps.items():
        for u, v in snap.items():
            if v["rec"] or v["dt"] > t_reload:
                want[u] = (v["owner"], v["cmd"], v["maxsim"])
    if got != want:
        extra = sorted(set(got) - set(want))
        missing = sorted(set(want) - set(got))
        diff = sorted(u for u in got if u in want and got[u] != want[u])
        if missing:
            fail("reload-lost-task/" + tag, "%s (%s) was in its owner's last completed checkpoint but is not scheduled after restart" % (missing[0], want[missing[0]][1]))
        if extra:
            fail("reload-resurrects-task/" + tag, "%s %r is scheduled after restart but was not in the last completed checkpoint" % (extra[0], got[extra[0]]))
        for u in diff[:1]:
            k = "owner" if got[u][0] != want[u][0] else ("version" if got[u][1] != want[u][1] else "max-simul")
            fail("reload-changes-%s/%s" % (k, tag), "%s: checkpointed as %r, scheduled after restart as %r" % (u, want[u], got[u]))
    return nfiles, len(got)


def run_variant(root, lines, ops, t_end, inj, part, meta, tag):
    """one execution of the history with an injection; returns number of fs calls (baseline) or None"""
    spool = tempfile.mkdtemp(prefix="c06-spool-")
    try:
        text = "\n".join(with_inject(lines, inj)).replace(SPOOL, spool) + "\n"
        ev, out, err, rc = sched.run_script(root, text, iter_log=False)
        part.evaluations += 1
        fails = []
        fail = lambda k, d: fails.append((k, d))
        crashed = rc == 42
        if ev is None or (rc != 0 and not crashed) or (not crashed and not any(e[0] == "END" for e in ev)):
            head, frames = sched.san_summary(err)
            part.violation("daemon-crash/" + (">".join(frames[:2]) or "rc%s" % rc),
                           {"input": text, "summary": (head or err[-300:] or "no END marker")[:300], "log": err[-3000:]})
            return None
        snaps, model, published, down = model_walk(ev, ops)
        fsn = [e[1] for e in ev if e[0] == "FSCOUNT"]
        injected = any(e[0] == "FS" and "INJECTED" in e[4] for e in ev)
        if tag.startswith("fault") and not injected:
            part.count("fault_points_not_reached")
        # a failing call during the final checkpoint itself excuses it, one long before does not
        late_fault = False
        seen_shut = False
        for e in ev:
            if e[0] == "SHUTDOWN":
                seen_shut = True
            elif e[0] == "FS" and "INJECTED" in e[4] and seen_shut:
                late_fault = True
        # (the harness logs SHUTDOWN before free_echsd() writes the final checkpoint)
        if down and not late_fault:
            # a clean shutdown has written every acknowledged change
            for user in sorted(set(v["owner"] for v in model.values()) | set(snaps)):
                mine = {u: v for u, v in model.items() if v["owner"] == user and (v["rec"] or v["dt"] > t_end + 5)}
                snap = {u: v for u, v in snaps.get(user, {}).items() if v["rec"] or v["dt"] > t_end + 5}
                if mine != snap:
                    fail("shutdown-misses-change", "user %d: after a clean shutdown the last checkpoint holds %r, acknowledged state is %r"
                         % (user, sorted((u, v["cmd"]) for u, v in snap.items())[:4], sorted((u, v["cmd"]) for u, v in mine.items())[:4]))
        nfiles, narmed = inspect(root, spool, snaps, t_end + 5, fail, tag.split(":")[0])
        if crashed and not fails and meta.get("second_life") is not None:
            second_life(root, spool, snaps, t_end + 10, meta["second_life"], fail, part)
        part.count("spool_files_inspected", nfiles)
        part.count("tasks_rescheduled_after_restart", narmed)
        part.count("checkpoints_published", published)
        part.count("runs_" + tag.split(":")[0])
        for k, d in fails:
            part.violation(k, {"input": text, "detail": d, "meta": meta, "injection": inj, "lines": lines, "ops": ops, "t_end": t_end, "tag": tag,
                               "summary": "%s (%s; %d users, %d requests)" % (d, inj or "no injection", meta["users"], meta["nops"])})
        return (fsn[-1] if fsn else None), published, not fails
    finally:
        shutil.rmtree(spool, ignore_errors=True)


def second_life(root, spool, snaps, t0, plan, fail, part):
    """the daemon is started again on what the crash left behind, takes a few more acknowledged requests and is shut down
    properly; a third daemon must then find exactly the acknowledged state"""
    init = {}
    for user, snap in snaps.items():
        for u, v in snap.items():
            if v["rec"] or v["dt"] > t0:
                init[u] = dict(v)
    lines = ["spool " + spool, "now %.6f" % t0, "start", "lives 0.01"]
    ops = []
    ver = 900000
    users = sorted(plan["users"])
    for i, (user, what) in enumerate(plan["ops"]):
        mine = sorted(u for u, v in init.items() if v["owner"] == user)
        if what == "cancel" and mine:
            uid = mine[i % len(mine)]
            lines.append("req %d %s" % (user, sched.hexs(vcal(["BEGIN:VEVENT\nUID:%s\nSTATUS:CANCELLED\nEND:VEVENT" % uid], "CANCEL"))))
            ops.append({"k": "cancel", "peer": user, "uids": [uid]})
        else:
            ver += 1
            uid = "again%d.%d@verif" % (user, i)
            dt = int(t0) + 3600
            lines.append("req %d %s" % (user, sched.hexs(vcal([vevent(uid, ver, dt, True, None)]))))
            ops.append({"k": "add", "peer": user, "items": [{"uid": uid, "ver": ver, "rec": True, "dt": dt, "maxsim": None}]})
    t1 = t0 + plan["wait"]
    lines += ["run %.6f" % t1, "shutdown"]
    ev, out, err, rc = sched.run_script(root, "\n".join(lines) + "\n", iter_log=False)
    part.evaluations += 1
    part.count("second_lives")
    if ev is None or rc != 0 or not any(e[0] == "END" for e in ev):
        head, frames = sched.san_summary(err)
        fail("second-life-crash/" + (">".join(frames[:2]) or "rc%s" % rc), "the daemon restarted after the crash dies: %s" % (head or err[-200:]))
        return
    snaps2, model2, published, down = model_walk(ev, ops, init=init, init_snaps={k: {u: v for u, v in s.items() if u in init} for k, s in snaps.items()})
    for user in sorted(set(v["owner"] for v in model2.values()) | set(snaps2)):
        # (single-occurrence tasks that came due meanwhile have run and retired on both sides)
        mine = {u: v for u, v in model2.items() if v["owner"] == user and (v["rec"] or v["dt"] > t1)}
        snap = {u: v for u, v in snaps2.get(user, {}).items() if v["rec"] or v["dt"] > t1}
        if mine != snap:
            fail("second-life/shutdown-misses-change", "user %d: restarted after a crash and shut down cleanly, the checkpoint holds %r, acknowledged state is %r"
                 % (user, sorted((u, v["cmd"]) for u, v in snap.items())[:4], sorted((u, v["cmd"]) for u, v in mine.items())[:4]))
    inspect(root, spool, snaps2, t1 + 5, fail, "second-life")


def run_history(root, part, rng, tier):
    lines, ops, t_end, meta = build_history(rng)
    # what happens after a crash (used by the crash variants of this history)
    us = sorted(set(op["peer"] for op in ops)) or [1000]
    meta["second_life"] = {"users": us, "wait": rng.choice([5.0, 61.0, 130.0]),
                           "ops": [(rng.choice(us), rng.choice(["add", "cancel", "add"])) for _ in range(rng.randint(1, 5))]}
    r = run_variant(root, lines, ops, t_end, None, part, meta, "baseline")
    if r is None or r[0] is None:
        return
    nfs, published, ok = r
    if nfs == 0:
        return
    part.nontrivial.add("u%d fs%d pub%d %s" % (meta["users"], min(nfs, 400) // 20, min(published, 20), "clean" if meta["clean_shutdown"] else "noshut"))
    ncrash = 6 if tier == "quick" else 40
    points = set(rng.sample(range(1, nfs + 1), min(ncrash, nfs)))
    points |= {1, nfs}
    if tier != "quick" and nfs <= 120:
        points = set(range(1, nfs + 1))
    for k in sorted(points):
        run_variant(root, lines, ops, t_end, "crashat %d" % k, part, meta, "crash:%d" % k)
    nfault = 3 if tier == "quick" else 20
    for k in sorted(rng.sample(range(1, nfs + 1), min(nfault, nfs))):
        en = rng.choice([28, 5, -1, 28])
        run_variant(root, lines, ops, t_end, "faultat %d %d" % (k, en), part, meta, "fault:%d:%d" % (k, en))
    if len(part.samples) < 2 and ok and published > 2:
        part.sample({"users": meta["users"], "requests": meta["nops"], "fs_calls_in_checkpoints": nfs, "checkpoints_published": published,
                     "crash_points_tried": len(points), "clean_shutdown": meta["clean_shutdown"]})


def worker(args):
    root, seed, tier, wid, nw, n = args
    part = Part()
    rng = rng_for(seed, PROP, wid)
    for _ in range(n):
        run_history(root, part, rng, tier)
    return part.export()


def main(tier):
    root = build_or_die()
    if not os.path.exists(build.exe(root, "asan", "h_echsd")):
        print("HARNESS-FAILURE h_echsd not built")
        return 2
    run = Run(PROP, tier)
    total = 192 if tier == "quick" else 1600
    for p in pmap(worker, [(root, run.seed, tier, w, NCPU, total // NCPU) for w in range(NCPU)]):
        run.merge(p)
    run.cov["rule"] = ("histories of 3..80 acknowledged add/replace/cancel requests and GET /queue of 1..20 users (more than the 16 dirty "
                       "slots; a quarter of the histories make 15+ distinct users dirty within one checkpoint interval, some by emptying their "
                       "queue), clock advances across the 60 s checkpoint timer, retiring single-occurrence tasks, with and without a "
                       "clean shutdown; each history is re-run with the process killed before the k-th openat/write/close/renameat/"
                       "unlinkat of the checkpoint code (quick: 8 points incl. first and last, thorough: all up to 120, else 42) and with "
                       "the k-th call failing with ENOSPC/EIO or writing short; after each run every echsq_*.ics must be a complete "
                       "calendar and a fresh daemon process started on the directory must schedule exactly the tasks (UID, owner, "
                       "version, MAX-SIMUL) of each user's map as of the last rename of that user's file; after a clean shutdown "
                       "that is the acknowledged state; evaluations = daemon executions, distinct = (users, fs calls, checkpoints, "
                       "shutdown kind) of the histories")
    run.assumptions = ["a crash is _exit() between two system calls: data handed to write() before is in the file, data still in the "
                       "process's buffer is lost; the kernel's own crash consistency (fsync ordering) is outside the property's anchors",
                       "PUBLISHED is logged by the renameat shim, the snapshot model takes the user's task map at that moment"]
    return run.finish(min_eval=total * 3, min_nontrivial=10)


def replay(path):
    """re-run the recorded history with the recorded injection on the current tree, inspect the spool and restart again"""
    w = json.load(open(path))
    root = build_or_die()
    print("recorded:", w.get("key"), "|", (w.get("detail") or w.get("summary") or "")[:300], "|", w.get("injection"))
    if "lines" not in w:
        return 1
    part = Part()
    run_variant(root, w["lines"], w["ops"], w["t_end"], w.get("injection"), part, w.get("meta", {"users": 0, "nops": 0}), w.get("tag", "replay"))
    for k, (n, wit) in part.viol.items():
        print("now:", k, (wit.get("detail") or wit.get("summary") or "")[:300])
    if not part.viol:
        print("now: every queue file is complete and the restarted daemon schedules exactly the last checkpointed state")
    return 1 if part.viol else 0

"""C19 -- small-integer set containers behave as sets.
Oracle: Python set.  Harness: h_lib 'bi' command (asan build)."""
import itertools
import json
import os

from .. import build
from ..common import (Run, Part, LineServer, HarnessCrash, pmap, rng_for, build_or_die, NCPU)

PROP = "C19"
TYPES = {
    # name: (lo, hi, has membership test)
    "bui31": (0, 30, True),
    "bui63": (0, 62, False),
    "bi31": (-31, 31, True),
    "bi63": (-63, 63, False),
    "bi383": (-383, 383, False),
    "bi447": (-447, 447, False),
}


def shape(ty, seq):
    lo, hi, _ = TYPES[ty]
    s = set(seq)
    n = len(s)
    ncls = "1" if n == 1 else ("2" if n == 2 else ("3" if n == 3 else "many"))
    if s == {0}:
        sign = "zero-only"
    elif all(v < 0 for v in s):
        sign = "neg-only"
    elif all(v > 0 for v in s):
        sign = "pos-only"
    elif all(v >= 0 for v in s):
        sign = "zero+pos"
    elif all(v <= 0 for v in s):
        sign = "zero+neg"
    else:
        sign = "mixed"
    ext = "ext" if (lo in s or hi in s) else "in"
    dup = "dup" if len(seq) != n else "nodup"
    return "%s/n%s/%s/%s/%s" % (ty, ncls, sign, ext, dup)


def judge(ty, seq, ans):
    """returns list of failure kinds"""
    lo, hi, hasmem = TYPES[ty]
    want = set(seq)
    fails = []
    f = dict(kv.split("=", 1) for kv in ans.split(" ") if "=" in kv)
    if "has" not in f:
        return ["bad-answer"]
    if int(f["has"]) != (1 if want else 0):
        fails.append("has_bits-wrong")
    if hasmem and f.get("mem", "-") != "-":
        mem = f["mem"]
        got = {lo + i for i, c in enumerate(mem) if c == "1"}
        if got - want:
            fails.append("member-extra")
        if want - got:
            fails.append("member-missing")
    it = [int(x) for x in f.get("it", "").split(",") if x != ""]
    if f.get("capped") == "1":
        fails.append("iter-noterm")
    else:
        if len(it) != len(set(it)):
            fails.append("iter-dup")
        if set(it) - want:
            fails.append("iter-extra")
        if want - set(it):
            fails.append("iter-missing")
    return fails


def run_batch(srv, part, ty, seqs):
    cmds = ["bi %s %d %s" % (ty, len(s), " ".join(map(str, s))) for s in seqs]
    try:
        answers = srv.batch(cmds)
    except HarnessCrash as e:
        # find the culprit one by one
        for s in seqs:
            try:
                a = srv.batch(["bi %s %d %s" % (ty, len(s), " ".join(map(str, s)))])[0]
            except HarnessCrash as e2:
                part.violation(shape(ty, s) + "/crash-" + e2.kind,
                               {"input": {"type": ty, "seq": list(s)}, "summary": e2.detail[:600]})
                continue
            check_one(part, ty, s, a)
        return
    for s, a in zip(seqs, answers):
        check_one(part, ty, s, a)


def check_one(part, ty, s, a):
    part.evaluations += 1
    sh = shape(ty, s)
    if len(set(s)) >= 1:
        part.nontrivial.add(sh)
    fails = judge(ty, s, a)
    for k in fails:
        part.violation(sh + "/" + k, {"input": {"type": ty, "seq": list(s)}, "observed": a,
                                      "expected": sorted(set(s)),
                                      "summary": "%s after inserting %s: %s; got %s" % (ty, list(s), k, a)})
    if not fails:
        part.sample({"type": ty, "inserted": list(s), "answer": a}, cap=1)


def worker(args):
    root, seed, tier, wid, nw = args
    part = Part()
    srv = LineServer(build.exe(root, "asan", "h_lib"))
    rng = rng_for(seed, PROP, wid)
    try:
        # --- exhaustive core: every insertion sequence of length <= 3 (small types)
        for ty in ("bui31", "bi31", "bui63", "bi63"):
            lo, hi, _ = TYPES[ty]
            dom = list(range(lo, hi + 1))
            if ty == "bi63" or (tier == "quick" and ty == "bui63"):
                # length <= 2 complete; length 3 over a stratified sub-range
                sub = sorted(set([lo, lo + 1, -33, -32, -31, -2, -1, 0, 1, 2, 30, 31, 32, 33, hi - 1, hi]
                                 + rng.sample(dom, 12)) & set(dom))
                seqs = [(a,) for a in dom] + [(a, b) for a in dom for b in dom]
                seqs += list(itertools.product(sub, repeat=3))
            else:
                seqs = [(a,) for a in dom] + [(a, b) for a in dom for b in dom]
                seqs += list(itertools.product(dom, repeat=3))
            mine = seqs[wid::nw]
            for i in range(0, len(mine), 4000):
                run_batch(srv, part, ty, mine[i:i + 4000])
            part.count("exhaustive_seqs_" + ty, len(mine))
        # --- big types: length <= 2 over everything, 3 over a stratified range
        for ty in ("bi383", "bi447"):
            lo, hi, _ = TYPES[ty]
            dom = list(range(lo, hi + 1))
            sub = sorted(set([lo, lo + 1, -384 if lo < -384 else lo, -353, -352, -65, -64, -63, -33, -32, -31,
                              -2, -1, 0, 1, 2, 31, 32, 33, 63, 64, 65, 352, 353, hi - 1, hi,
                              366, -366, 383, -383] + rng.sample(dom, 30)) & set(dom))
            seqs = [(a,) for a in dom]
            seqs += [(a, b) for a in sub for b in dom] + [(a, b) for a in dom for b in sub]
            seqs += list(itertools.product(sub[::2], repeat=3))
            mine = seqs[wid::nw]
            for i in range(0, len(mine), 4000):
                run_batch(srv, part, ty, mine[i:i + 4000])
        # --- random larger sets, crossing the native->bitset switch at 12/14
        nrand = (400 if tier == "quick" else 6000)
        for ty, (lo, hi, _) in TYPES.items():
            seqs = []
            for _ in range(nrand):
                r = rng.random()
                if r < 0.2:
                    n = rng.choice([11, 12, 13, 14, 15, 16])
                elif r < 0.8:
                    n = rng.randint(1, 40)
                else:
                    n = rng.randint(min(40, hi - lo), hi - lo + 1)
                mode = rng.random()
                if mode < 0.2 and lo < 0:
                    dom = list(range(lo, 0))
                elif mode < 0.4:
                    dom = list(range(max(lo, 0), hi + 1))
                elif mode < 0.5:
                    dom = [lo, hi, 0, 1, -1 if lo < 0 else 2, hi - 1, lo + 1]
                else:
                    dom = list(range(lo, hi + 1))
                s = [rng.choice(dom) for _ in range(n)]
                if rng.random() < 0.3:
                    s += rng.sample(s, min(len(s), 3))   # duplicates
                if rng.random() < 0.1:
                    s = list(range(lo, hi + 1))
                    rng.shuffle(s)
                seqs.append(tuple(s))
            if wid == 0:
                seqs.append(())
            run_batch(srv, part, ty, seqs)
            part.count("random_seqs", len(seqs))
    finally:
        srv.close()
    return part.export()


def main(tier):
    root = build_or_die()
    run = Run(PROP, tier)
    nw = NCPU
    for p in pmap(worker, [(root, run.seed, tier, w, nw) for w in range(nw)]):
        run.merge(p)
    run.cov["rule"] = ("every insertion sequence (with repetition) of length<=3 over the full range of "
                       "bui31/bi31%s, length<=2 plus a stratified length-3 core for the others, plus random "
                       "sequences up to the full range incl. duplicates and the native->bitset switch; "
                       "distinct = (type, #distinct values class, sign pattern, extreme value present, "
                       "duplicates present) signatures observed") % ("/bui63" if tier != "quick" else "")
    run.cov["exhaustive"] = True
    run.cov["exhaustive_scope"] = "length<=3 sequences over bui31 and bi31 (full), others as stated in rule"
    run.assumptions = ["value 0 is a legal member of the signed containers (BYEASTER=0 uses it)",
                       "iteration order is unspecified; only the multiset of yielded values is judged"]
    return run.finish(min_eval=10000, min_nontrivial=20)


def replay(path):
    w = json.load(open(path))
    root = build_or_die()
    srv = LineServer(build.exe(root, "asan", "h_lib"))
    ty, s = w["input"]["type"], w["input"]["seq"]
    try:
        a = srv.batch(["bi %s %d %s" % (ty, len(s), " ".join(map(str, s)))])[0]
    except HarnessCrash as e:
        print("VIOLATION property=%s replay=%s\n  crash %s" % (PROP, path, e.detail[:400]))
        return 1
    finally:
        srv.close()
    fails = judge(ty, s, a)
    print("answer:", a, "failures:", fails)
    if fails:
        print("VIOLATION property=%s replay=%s" % (PROP, path))
        return 1
    return 0

"""C07 -- TZID events occur at the stated local wall-clock time.
Oracle: CPython zoneinfo on the same /usr/share/zoneinfo (independent TZif reader).
Function level: echs_instant_utc / _loc / echs_tzob_offs around every transition 1902..2037;
event level (metamorphic): echse's own floating expansion -> zoneinfo -> compare with the TZID expansion."""
import datetime as D
import json
import os
import zoneinfo
from zoneinfo import _zoneinfo as pyzi

from .. import build, rfc5545
from ..common import (Run, Part, CaseServer, LineServer, HarnessCrash, pmap, rng_for, build_or_die, NCPU, I, unI, fmtI)
from .C01 import parse_occ

PROP = "C07"
ALLSEC = 0x3ff
UTC = D.timezone.utc
LO = D.datetime(1902, 1, 1)
HI = D.datetime(2037, 12, 30)
CORE = ["Australia/Lord_Howe", "Asia/Kathmandu", "America/Santiago", "Africa/Casablanca", "Europe/London", "Europe/Berlin",
        "America/New_York", "America/St_Johns", "Pacific/Chatham", "Asia/Tehran", "Europe/Dublin", "America/Sao_Paulo"]


def all_zones():
    zs = []
    for z in sorted(zoneinfo.available_timezones()):
        if z.startswith(("right/", "posix/", "Etc/")) or z in ("localtime", "Factory"):
            continue
        if os.path.exists(os.path.join("/usr/share/zoneinfo", z)):
            zs.append(z)
    return zs


def inst(dt):
    return I(dt.year, dt.month, dt.day, dt.hour, dt.minute, dt.second, ALLSEC)


def to_dt(u):
    y, m, d, H, M, S, ms = unI(u)
    return D.datetime(y, m, d, H, M, S)


def transitions(zone):
    z = pyzi.ZoneInfo(zone)
    out = []
    for t in getattr(z, "_trans_utc", []):
        if -2145916800 < t < 2145830400:      # 1902-01-01 .. 2037-12-31
            out.append(D.datetime(1970, 1, 1) + D.timedelta(seconds=t))
    return out


def local_candidates(z, local):
    """UTC instants that map to the naive local time in zone z"""
    c = set()
    for fold in (0, 1):
        u = local.replace(tzinfo=z, fold=fold).astimezone(UTC).replace(tzinfo=None)
        if (u.replace(tzinfo=UTC).astimezone(z).replace(tzinfo=None)) == local:
            c.add(u)
    return sorted(c)


def func_level(lib, part, zone, rng, dense):
    z = zoneinfo.ZoneInfo(zone)
    trs = transitions(zone)
    probes = set()
    deltas = [D.timedelta(seconds=s) for s in (-1, 0, 1, -3600, 3600, -86400, 86400, -1800, 1800, -7200, 7200)]
    for t in trs if dense else rng.sample(trs, min(len(trs), 90)):
        for d in deltas:
            probes.add(t + d)
    for y in range(1902, 2038, 1 if dense else 9):
        for m in ((1, 2, 3, 6, 7, 10, 11, 12) if dense else (1, 2, 7, 11)):
            probes.add(D.datetime(y, m, rng.randint(1, 28), rng.randint(0, 23), rng.randint(0, 59), rng.randint(0, 59)))
    probes = sorted(p for p in probes if LO <= p <= HI)
    # 1. UTC -> local, and the offset
    cmds = []
    for u in probes:
        cmds.append("loc %x %s" % (inst(u), zone))
        cmds.append("offs %x %s 0" % (inst(u), zone))
    ans = lib.batch(cmds)
    locals_ = []
    for k, u in enumerate(probes):
        part.evaluations += 2
        exp_l = u.replace(tzinfo=UTC).astimezone(z)
        exp_off = int(exp_l.utcoffset().total_seconds())
        exp_l = exp_l.replace(tzinfo=None)
        got_l = to_dt(int(ans[2 * k].split()[0], 16))
        got_off = int(ans[2 * k + 1])
        near = any(abs((u - t).total_seconds()) <= 7200 for t in trs)
        part.nontrivial.add("%s/%s" % ("near-transition" if near else "plain", "janfeb" if u.month <= 2 else "other"))
        if got_off != exp_off:
            part.violation("offs/%s" % ("near-transition" if near else "plain"),
                           {"input": [zone, str(u)], "observed": got_off, "expected": exp_off,
                            "summary": "%s at %s UTC: offset %d, zoneinfo says %d" % (zone, u, got_off, exp_off)})
        if got_l != exp_l:
            part.violation("loc/%s" % ("near-transition" if near else "plain"),
                           {"input": [zone, str(u)], "observed": str(got_l), "expected": str(exp_l),
                            "summary": "%s: %s UTC is local %s, echse says %s" % (zone, u, exp_l, got_l)})
        locals_.append(exp_l)
    # 2. local -> UTC for unambiguous local times, and the round trip
    cmds, meta = [], []
    for l in locals_ + [p for p in probes]:
        c = local_candidates(z, l)
        if len(c) != 1:
            part.count("ambiguous_or_nonexistent_local_skipped")
            continue
        cmds.append("utc %x %s" % (inst(l), zone))
        meta.append((l, c[0]))
    ans = lib.batch(cmds)
    for a, (l, exp_u) in zip(ans, meta):
        part.evaluations += 1
        got_u = to_dt(int(a.split()[0], 16))
        if got_u != exp_u:
            near = any(abs((exp_u - t).total_seconds()) <= 7200 for t in trs)
            part.violation("utc/%s" % ("near-transition" if near else "plain"),
                           {"input": [zone, str(l)], "observed": str(got_u), "expected": str(exp_u),
                            "summary": "%s: local %s is %s UTC, echse says %s" % (zone, l, exp_u, got_u)})
        elif len(part.samples) < 2:
            part.sample({"zone": zone, "local": str(l), "utc": str(got_u)})
    part.count("transitions_probed", len(trs))


def event_level(srv, part, zone, rng, n):
    z = zoneinfo.ZoneInfo(zone)
    for _ in range(n):
        f = rng.choice(["DAILY", "DAILY", "WEEKLY", "MONTHLY"])
        r = {"freq": f, "interval": rng.choice([1, 1, 2, 7])}
        if f == "WEEKLY":
            r["byday"] = [(0, w) for w in sorted(rng.sample(range(7), 2))]
        tm = rng.choice([D.time(0, 30), D.time(2, 30), D.time(12, 0), D.time(23, 30), D.time(1, 59, 59), D.time(3, 0)])
        d0 = D.date(rng.randint(1903, 2030), rng.choice([1, 2, 3, 4, 9, 10, 11, 12, rng.randint(1, 12)]), rng.randint(1, 28))
        ds = D.datetime.combine(d0, tm)
        if len(local_candidates(z, ds)) != 1:
            continue
        rule = rfc5545.rule_text(r)
        N = rng.choice([40, 120, 250])
        head = "BEGIN:VCALENDAR\nBEGIN:VEVENT\nUID:c07@verif\nSUMMARY:x\n"
        tail = "\nRRULE:%s\nEND:VEVENT\nEND:VCALENDAR\n" % rule
        fl, _, _ = parse_occ(srv.case("n=%d budget=10000" % N, head + "DTSTART:" + ds.strftime("%Y%m%dT%H%M%S") + tail))
        tz, _, _ = parse_occ(srv.case("n=%d budget=10000" % N, head + "DTSTART;TZID=%s:%s" % (zone, ds.strftime("%Y%m%dT%H%M%S")) + tail))
        part.evaluations += 1
        k = 0
        crossed = 0
        offs = set()
        for a, b in zip(fl, tz):
            if isinstance(a, tuple) or isinstance(b, tuple) or a > HI:
                break
            c = local_candidates(z, a)
            if len(c) != 1:
                part.count("event_ambiguous_local_skipped")
                continue
            k += 1
            offs.add(a - c[0])
            if b != c[0]:
                utc0 = local_candidates(z, ds)[0]
                cls = "local-day-differs-from-utc-day" if utc0.date() != ds.date() else f
                part.violation("event/%s" % cls, {"input": head + "DTSTART;TZID=%s:%s" % (zone, ds.strftime("%Y%m%dT%H%M%S")) + tail,
                                                "observed": str(b), "expected": str(c[0]), "local": str(a),
                                                "summary": "%s %s from %s: occurrence at local %s should be %s UTC, delivered %s"
                                                % (zone, rule, ds, a, c[0], b)})
                break
        if len(offs) > 1:
            part.nontrivial.add("event/%s/straddles-transition/%s" % (f, "janfeb" if ds.month <= 2 else "other"))
        elif k:
            part.nontrivial.add("event/%s/no-transition" % f)
        part.count("event_occurrences_compared", k)


def rdate_level(srv, part, zone, rng, n):
    """events whose occurrences are RDATEs: dates (which take DTSTART's wall-clock time in DTSTART's zone), local times with
    the TZID, and UTC values; DTSTART is put within a day of a transition half of the time"""
    z = zoneinfo.ZoneInfo(zone)
    trs = transitions(zone)
    for _ in range(n):
        if trs and rng.random() < 0.6:
            t = rng.choice(trs)
            ds = (t.replace(tzinfo=UTC).astimezone(z).replace(tzinfo=None)
                  + D.timedelta(seconds=rng.choice([-1, 1]) * rng.choice([60, 1800, 3600, 3 * 3600, 7 * 3600, 11 * 3600, 20 * 3600])))
            near = "near-transition"
        else:
            ds = D.datetime(rng.randint(1903, 2030), rng.randint(1, 12), rng.randint(1, 28), rng.randint(0, 23), rng.choice([0, 30]), 0)
            near = "plain"
        if not (LO + D.timedelta(days=2) <= ds <= HI - D.timedelta(days=400)) or len(local_candidates(z, ds)) != 1:
            continue
        exp = set()
        lines = []
        forms = set()
        for _ in range(rng.choice([1, 2, 3])):
            form = rng.choice(["date", "date", "local", "utc"])
            vals = []
            for _ in range(rng.randint(1, 4)):
                d = ds.date() + D.timedelta(days=rng.choice([1, 7, 30, 91, 182, 240, rng.randint(1, 365)]))
                if form == "date":
                    l = D.datetime.combine(d, ds.time())
                    c = local_candidates(z, l)
                    if len(c) == 1:
                        vals.append(d.strftime("%Y%m%d"))
                        exp.add(c[0])
                elif form == "local":
                    l = D.datetime.combine(d, D.time(rng.randint(0, 23), rng.choice([0, 30]), 0))
                    c = local_candidates(z, l)
                    if len(c) == 1:
                        vals.append(l.strftime("%Y%m%dT%H%M%S"))
                        exp.add(c[0])
                else:
                    u = D.datetime.combine(d, D.time(rng.randint(0, 23), rng.choice([0, 30]), 0))
                    vals.append(u.strftime("%Y%m%dT%H%M%SZ"))
                    exp.add(u)
            if vals:
                forms.add(form)
                lines.append({"date": "RDATE;VALUE=DATE:", "local": "RDATE;TZID=%s:" % zone, "utc": "RDATE:"}[form] + ",".join(vals))
        if not lines:
            continue
        text = ("BEGIN:VCALENDAR\nBEGIN:VEVENT\nUID:c07r@verif\nSUMMARY:x\nDTSTART;TZID=%s:%s\n%s\nEND:VEVENT\nEND:VCALENDAR\n"
                % (zone, ds.strftime("%Y%m%dT%H%M%S"), "\n".join(lines)))
        got, ended, _ = parse_occ(srv.case("n=%d budget=10000" % (len(exp) + 3), text))
        part.evaluations += 1
        if any(isinstance(x, tuple) for x in got):
            part.violation("rdate/invalid-instant", {"input": text, "summary": "invalid instant among the RDATE occurrences"})
            continue
        part.count("rdate_occurrences_compared", len(exp))
        part.nontrivial.add("rdate/%s/%s" % (near, "+".join(sorted(forms))))
        if sorted(exp) != got:
            bad = sorted(set(got) ^ exp)[0]
            part.violation("rdate/%s/%s" % (near, "+".join(sorted(forms))),
                           {"input": text, "observed": [str(x) for x in got], "expected": [str(x) for x in sorted(exp)],
                            "summary": "%s DTSTART %s: RDATE occurrences differ from the stated wall-clock times, first at %s UTC"
                            % (zone, ds, bad)})


def worker(args):
    root, seed, tier, wid, nw, zones = args
    part = Part()
    rng = rng_for(seed, PROP, wid)
    # at most 60 zones per process: the zone handle has 6 bits (see the stress part)
    for i in range(0, len(zones), 50):
        batch = zones[i:i + 50]
        lib = LineServer(build.exe(root, "asan", "h_lib"), wall_timeout=300)
        srv = CaseServer(build.exe(root, "asan", "h_strm"), wall_timeout=120)
        try:
            for zone in batch:
                try:
                    func_level(lib, part, zone, rng, dense=(tier != "quick"))
                    event_level(srv, part, zone, rng, 8 if tier == "quick" else 20)
                    rdate_level(srv, part, zone, rng, 6 if tier == "quick" else 20)
                    part.count("zones")
                except HarnessCrash as e:
                    part.violation("crash-" + e.kind, {"input": zone, "summary": e.detail[:600]})
        finally:
            lib.close()
            srv.close()
    return part.export()


def stress_worker(args):
    """zone cache stress: k distinct zones interleaved in ONE process"""
    root, seed, zones = args
    part = Part()
    rng = rng_for(seed, PROP, "stress")
    probe = D.datetime(2021, 7, 1, 12, 0, 0)
    for k in (1, 3, 4, 16, 17, 40, 63, 64, 70):
        lib = LineServer(build.exe(root, "asan", "h_lib"), wall_timeout=120)
        try:
            zs = rng.sample(zones, k)
            seq = zs + [rng.choice(zs) for _ in range(4 * k)] + zs[::-1]
            ans = lib.batch(["loc %x %s" % (inst(probe), z) for z in seq])
            bad = []
            for zname, a in zip(seq, ans):
                part.evaluations += 1
                exp = probe.replace(tzinfo=UTC).astimezone(zoneinfo.ZoneInfo(zname)).replace(tzinfo=None)
                if to_dt(int(a.split()[0], 16)) != exp:
                    bad.append(zname)
            part.nontrivial.add("stress/%d" % k)
            if bad:
                key = "zone-table-full/more-than-63-zones" if k > 63 else "zone-cache/%d-zones" % k
                part.violation(key, {"input": {"zones": k, "first_wrong": bad[:5]},
                                     "summary": "%d distinct zones in one process: %d of %d conversions wrong (e.g. %s)"
                                     % (k, len(bad), len(seq), bad[0])})
        except HarnessCrash as e:
            part.violation("zone-cache/crash-" + e.kind, {"input": k, "summary": e.detail[:600]})
        finally:
            lib.close()
    return part.export()


def _dispatch(a):
    return a[0](a[1])


def main(tier):
    root = build_or_die()
    run = Run(PROP, tier)
    zones = all_zones()
    rng = rng_for(run.seed, PROP, "zones")
    if tier == "quick":
        pick = [z for z in CORE if z in zones]
        rest = [z for z in zones if z not in pick]
        pick += rng.sample(rest, 108)
    else:
        pick = zones
    rng.shuffle(pick)
    jobs = [(worker, (root, run.seed, tier, w, NCPU, pick[w::NCPU])) for w in range(NCPU)]
    jobs.append((stress_worker, (root, run.seed, zones)))
    for p in pmap(_dispatch, jobs, procs=NCPU + 1):
        run.merge(p)
    run.cov["rule"] = ("%d zones (%s): echs_instant_loc/offs at %s transition 1902..2037 +-{0,1 s,30 min,1 h,2 h,1 d} and one random instant "
                       "per sampled month, echs_instant_utc on every unambiguous local image, against zoneinfo; events DAILY/WEEKLY/"
                       "MONTHLY anchored at 00:30/02:30/12:00/23:30/01:59:59/03:00: TZID expansion vs zoneinfo applied to echse's own "
                       "floating expansion; zone cache stress with 1..70 zones in one process; distinct = (transition proximity, "
                       "Jan/Feb or not) for functions, (FREQ, straddles a transition, Jan/Feb) for events"
                       % (len(pick), "all installed" if tier != "quick" else "12 fixed + 108 by seed", "every" if tier != "quick" else "90 sampled"))
    run.cov["zones_total_installed"] = len(zones)
    run.assumptions = ["only local times with exactly one UTC image are judged (gaps and folds are skipped)",
                       "instants after 2037-12-30 (beyond the 32-bit transition data) are outside the property"]
    return run.finish(min_eval=20000, min_nontrivial=8)


def replay(path):
    w = json.load(open(path))
    print(json.dumps({k: w.get(k) for k in ("key", "input", "observed", "expected", "summary")}, indent=1))
    return 1

"""C05 -- tasks are read as written and survive serialisation unchanged.
(1) README field mapping model vs the parsed task; (2) serialise (the way chkpnt1 does) after k
consumed occurrences, re-parse, compare attributes and remaining occurrences with the original
stream's continuation; (3) echse merge | echse unroll and echsq -n add through the binaries."""
import datetime as D
import json
import os
import re
import subprocess
import tempfile

from .. import build, calgen, rfc5545, rulegen, evgen, xxh
from ..common import (Run, Part, CaseServer, HarnessCrash, pmap, rng_for, build_or_die, NCPU, SAN_ENV, unesc)

PROP = "C05"


def parse_dump(lines):
    """-> list of tasks [{'uid', 'fields': {k: v or [v..]}, 'occ': [...]}] from I/T/S/O lines (first phase only)"""
    tasks = []
    cur = None
    for l in lines:
        if l.startswith(("I ", "L I ")):
            m = re.search(r"SCHE uid=(\S+)", l)
            cur = {"uid": unesc(m.group(1)) if m else None, "fields": {}, "occ": []}
            tasks.append(cur)
        elif l.startswith("T ") and cur is not None:
            k, _, v = l[2:].partition("=")
            v = unesc(v)
            if k == "att":
                cur["fields"].setdefault("att", []).append(v)
            else:
                cur["fields"][k] = v
    return tasks


def split_phases(lines):
    """h_strm ser=1 output -> (first-parse lines, serialised bytes, A-occurrences per task, reparse lines, R-occurrences per task)"""
    first, a_occ, r_lines, r_occ = [], {}, [], {}
    ser = None
    phase = "first"
    cur = None
    for l in lines:
        if l.startswith("B "):
            ser = re.sub(rb"%([0-9a-f]{2})", lambda m: bytes([int(m.group(1), 16)]), l[2:].encode("latin1"))
            phase = "A"
            continue
        if l == "R begin":
            phase = "R"
            cur = None
            continue
        if l == "R end":
            phase = "done"
            continue
        if phase == "first":
            first.append(l)
        elif phase == "A":
            if l.startswith("S "):
                cur = int(l[2:])
                a_occ[cur] = []
            elif l.startswith("O ") and cur is not None:
                a_occ[cur].append(l[2:])
        elif phase == "R":
            if l.startswith("S "):
                cur = int(l[2:])
                r_occ[cur] = []
            elif l.startswith("O ") and cur is not None and cur in r_occ:
                r_occ[cur].append(l[2:])
            else:
                r_lines.append(l)
    return first, ser, a_occ, r_lines, r_occ


IGNORE_FIELDS = {"strm", "vtod_typ"}


def shift_meaning(spec):
    """(days, business days, towards-Friday, fixed-direction) of a SHIFT value, read the way the README spells them out:
    N days; NB business days; a sign on 0B gives the direction; NB+ / -NB- say that the move off a weekend does not count"""
    d = b = 0
    back = fixed = False
    i, n = 0, len(spec)
    while True:
        m = re.match(r"\s*([+-]?\d*)", spec[i:])
        num = m.group(1)
        negz = spec[i:i + 1] == "-"
        tmp = int(num) if re.search(r"\d", num) else 0
        i += m.end()
        c = spec[i:i + 1]
        i += 1
        if c in ("b", "B"):
            while True:
                c = spec[i:i + 1]
                i += 1
                if c in ("", ";"):
                    b += tmp
                    break
                if c == "+":
                    fixed = fixed or tmp >= 0
                    continue
                if c == "-":
                    fixed = fixed or tmp < 0
                    negz = negz or tmp == 0
                    continue
                if c == ",":
                    b += tmp
                    break
                return None
            if c == ",":
                continue
            back = b < 0 or (b == 0 and negz)
            fixed = fixed or b == 0
            return (d, abs(b), back, fixed)
        if c == ",":
            d += tmp
            continue
        if c in ("", ";"):
            d += tmp
            return (d, 0, False, False)
        return None


def cmp_fields(exp, got, what):
    """exp/got: dicts of field -> value; returns list of (field, expected, observed)"""
    diffs = []
    for k in sorted(set(exp) | set(got)):
        if k in IGNORE_FIELDS:
            continue
        e, g = exp.get(k), got.get(k)
        if k == "att" and e is not None and g is not None:
            # the order of the attendee list carries no meaning
            e, g = sorted(e), sorted(g)
        if e != g:
            diffs.append((k, e, g))
    return diffs


def field_case(srv, part, rng):
    """(1) README mapping"""
    data, model = calgen.gen_calendar(rng, opts={"cheap_rules": True, "long_uids": True, "vtodo": True})
    part.evaluations += 1
    lines = srv.case("fields=1 budget=10000", data)
    tasks = parse_dump(lines)
    if len(tasks) != len(model["events"]):
        part.violation("fields/task-count", {"input": data.decode("latin1"), "summary": "%d events written, %d tasks read" % (len(model["events"]), len(tasks))})
        return
    for ev, t in zip(model["events"], tasks):
        exp = calgen.expected_fields(ev, model["global"])
        got = dict(t["fields"])
        present = "+".join(sorted(k for k in ev if k not in ("uid", "dtstart", "rules")))
        part.nontrivial.add("fields/" + "+".join(sorted(set(exp) - {"mailout", "mailerr", "mailrun", "max_simul", "umsk"}))[:80])
        if t["uid"] != ev["uid"] and xxh.xxh32(t["uid"]) == xxh.xxh32(ev["uid"]):
            # the library identifies a UID by its 32-bit hash (one key by design, see C11): among the thousands of UIDs
            # one harness process sees, two may share it, and the name of the first is printed for both
            part.count("uid_hash_twins_in_one_process")
        elif t["uid"] != ev["uid"]:
            part.violation("fields/uid-over-255-octets" if len(ev["uid"]) > 255 else "fields/uid", {"input": data.decode("latin1"), "summary": "UID %r read as %r" % (ev["uid"], t["uid"])})
        for k, e, g in cmp_fields(exp, got, "fields"):
            glob = "global-default" if (k in model["global"] and k not in ev) else "event"
            part.violation("fields/%s/%s" % (k, glob),
                           {"input": data.decode("latin1"), "field": k, "expected": e, "observed": g, "other_fields": present,
                            "summary": "task %s: %s should be %r (README mapping), parsed %r; other properties present: %s"
                            % (ev["uid"], k, e, g, present)})
    if len(part.samples) < 1:
        part.sample({"events": len(tasks), "fields_of_first": tasks[0]["fields"] if tasks else None})


def full_language_event(rng):
    """one event over the whole input language for the serialisation round trip"""
    text, meta = evgen.gen_event(rng, odd=False, uid="ser-%d@verif" % rng.randint(0, 10 ** 6))
    extra = []
    f = rng.random
    esc_raw = None
    if f() < 0.15:
        # RFC 5545 TEXT escapes: what is written must be what is read (and read back)
        esc_raw = rng.choice(["echo a\\b", "echo one, two; three", "printf 'x\\ny'", "echo line1\nline2", "dir C:\\tmp\\x, y",
                              "echo \\\\ end\\"])
        extra.append("SUMMARY:" + calgen.esc_text(esc_raw))
    elif f() < 0.8:
        extra.append("SUMMARY:" + calgen.val(rng, "cmd"))
    if f() < 0.06:
        # a task well beyond the 4 KiB print buffer
        for fld in ("X-ECHS-IFILE", "X-ECHS-OFILE", "X-ECHS-EFILE", "LOCATION", "DESCRIPTION"):
            extra.append(fld + ":/" + rng.choice("abcdef") * rng.choice([870, 900, 950, 990]))
        extra = [l for i, l in enumerate(extra) if l.split(":")[0] not in [x.split(":")[0] for x in extra[:i]]]
    if f() < 0.3:
        extra.append("LOCATION:" + calgen.val(rng, "path"))
    if f() < 0.3:
        extra.append("X-ECHS-SHELL:/bin/bash")
    if f() < 0.3:
        extra.append("X-ECHS-OFILE:" + calgen.val(rng, "path"))
    if f() < 0.2:
        extra.append("X-ECHS-EFILE:" + calgen.val(rng, "path"))
    if f() < 0.2:
        extra.append("X-ECHS-IFILE:" + calgen.val(rng, "path"))
    if f() < 0.3:
        extra.append("X-ECHS-MAIL-OUT:%d" % rng.randint(0, 1))
    if f() < 0.2:
        extra.append("X-ECHS-MAIL-ERR:%d" % rng.randint(0, 1))
    if f() < 0.2:
        extra.append("X-ECHS-MAIL-RUN:%d" % rng.randint(0, 1))
    if f() < 0.3:
        extra.append("X-ECHS-MAX-SIMUL:%d" % rng.choice([0, 1, 2, 5, 62]))
    if f() < 0.3:
        extra.append("X-ECHS-UMASK:0%o" % rng.choice([0o22, 0o77, 0, 0o777]))
    if f() < 0.3:
        extra.append("X-ECHS-OWNER:%d" % rng.choice([0, 1000, 1001]))
    if f() < 0.2:
        extra.append("X-ECHS-SETUID:" + rng.choice(["1000", "nobody"]))
    if f() < 0.15:
        extra.append("X-ECHS-SETGID:" + rng.choice(["100", "users"]))
    if f() < 0.3:
        extra.append("ORGANIZER:mailto:cron@example.com")
    if f() < 0.3:
        for _ in range(rng.randint(1, 3)):
            extra.append("ATTENDEE:mailto:" + calgen.val(rng, "addr"))
    if f() < 0.25 and not meta["is_date"]:
        extra.append("DURATION:PT%dS" % rng.choice([1, 30, 3600, 86400, 90061]))
    # exceptions and extra dates
    if f() < 0.2:
        x, _ = evgen.any_rule_text(rng, meta["is_date"], odd=False)
        extra.append("EXRULE:" + x)
    ds = meta["dtstart"]
    if f() < 0.2 and not meta["dtscale"] and not meta["tzid"]:
        step = D.timedelta(days=1)
        exd = sorted({ds + step * rng.randint(0, 60) for _ in range(rng.randint(1, 5))})
        extra.append(("EXDATE;VALUE=DATE:" if meta["is_date"] else "EXDATE:") + ",".join(evgen.fmt_dt(x, z=not meta["is_date"]) for x in exd))
    if f() < 0.15 and not meta["dtscale"] and not meta["tzid"]:
        step = D.timedelta(days=1)
        rd = sorted({ds + step * rng.randint(1, 90) for _ in range(rng.randint(1, 5))})
        extra.append(("RDATE;VALUE=DATE:" if meta["is_date"] else "RDATE:") + ",".join(evgen.fmt_dt(x, z=not meta["is_date"]) for x in rd))
    text = text.replace("SUMMARY:x\n", "\n".join(extra) + "\n" if extra else "")
    feats = set()
    for t in meta["rules"]:
        feats.add(t.split(";")[0].split("=")[1])
        for k in ("SHIFT", "BYEASTER", "SCALE", "BYSETPOS", "COUNT", "UNTIL", "BYMINUTE", "BYSECOND", "BYHOUR"):
            if k + "=" in t:
                feats.add(k)
    for l in extra:
        k = l.split(":")[0].split(";")[0]
        if k in ("EXRULE", "EXDATE", "RDATE", "DURATION"):
            feats.add(k)
    if meta["tzid"]:
        feats.add("TZID")
    if meta["dtscale"]:
        feats.add("DTSCALE")
    if len(meta["rules"]) > 1:
        feats.add("MULTI")
    meta["esc_raw"] = esc_raw
    return text, meta, feats


def big_task(pad):
    """a plain task whose written form is about 4 KiB (the writer's buffer); PAD (0..383) slides the short formatted lines at
    its end (UMASK, MAIL-*, MAX-SIMUL, DTSTART, DURATION, RRULE) across the 4096th byte"""
    text = "\n".join([
        "BEGIN:VCALENDAR", "VERSION:2.0", "BEGIN:VEVENT", "UID:big-%d@verif" % pad,
        "SUMMARY:echo " + "s" * pad, "DESCRIPTION:" + "d" * 430, "LOCATION:/" + "l" * 870,
        "X-ECHS-IFILE:/" + "i" * 760, "X-ECHS-OFILE:/" + "o" * 760, "X-ECHS-EFILE:/" + "e" * 600,
        "X-ECHS-SHELL:/bin/sh", "X-ECHS-UMASK:027", "X-ECHS-MAX-SIMUL:1", "X-ECHS-MAIL-OUT:1", "X-ECHS-MAIL-ERR:1",
        "ORGANIZER:echse+host", "ATTENDEE:joe@example.com", "ATTENDEE:ann@example.org",
        "DTSTART:20200301T101500Z", "DURATION:PT1H30M", "RRULE:FREQ=DAILY;INTERVAL=2;BYHOUR=3,10,17;BYMINUTE=15,45;COUNT=24",
        "END:VEVENT", "END:VCALENDAR", ""])
    meta = {"rules": ["FREQ=DAILY;INTERVAL=2;BYHOUR=3,10,17;BYMINUTE=15,45;COUNT=24"], "esc_raw": None}
    return text, meta, {"DAILY", "DURATION"}


def _in_gap_hour(zone, hexinst):
    """does the zone's UTC offset jump forward within three hours before this (UTC) instant?"""
    import datetime as D
    import zoneinfo
    from ..common import unI
    y, m, d, H, M, S, ms = unI(int(hexinst, 16))
    if H == 0xff or not (1902 <= y <= 2037):
        return False
    z = zoneinfo.ZoneInfo(zone)
    u = D.datetime(y, m, d, H, M, S, tzinfo=D.timezone.utc)
    offs = [(u - D.timedelta(minutes=15 * k)).astimezone(z).utcoffset() for k in range(13, -1, -1)]
    return any(b > a for a, b in zip(offs, offs[1:]))


def ser_case(srv, part, rng, tier, forced=None):
    """(2) serialise after k pops, re-parse, compare"""
    text, meta, feats = forced if forced else full_language_event(rng)
    k = rng.choice([0, 0, 1, 31, 62, 63, 64, 65, 130]) if not forced else 0
    N = 30
    part.evaluations += 1
    lines = srv.case("fields=1 ser=1 skip=%d n=%d budget=15000" % (k, N), text)
    first, ser, a_occ, r_lines, r_occ = split_phases(lines)
    orig = parse_dump(first)
    if not orig:
        return
    if ser is None:
        part.inconclusive.append({"why": "no serialisation produced", "input": text[:300]})
        return
    rep = parse_dump(r_lines)
    if meta.get("esc_raw") is not None:
        part.nontrivial.add("ser/escapes")
        if orig[0]["fields"].get("cmd") != meta["esc_raw"]:
            part.violation("fields/escapes", {"input": text, "expected": meta["esc_raw"], "observed": orig[0]["fields"].get("cmd"),
                                              "summary": "SUMMARY written as %r (escaped) is read as %r" % (meta["esc_raw"], orig[0]["fields"].get("cmd"))})
    if len(ser or b"") > 4096:
        part.nontrivial.add("ser/larger-than-print-buffer")
    a0 = a_occ.get(0, [])
    ended_before = (a0[:1] == ["-"]) or not a0
    kcls = "k0" if k == 0 else ("k<63" if k < 63 else ("k63-65" if k <= 65 else "k>65"))
    # the classifier: which language features the event uses + what went wrong
    fkey = "+".join(sorted(feats & {"EXRULE", "EXDATE", "RDATE", "BYSETPOS", "SHIFT", "BYEASTER", "SCALE", "DTSCALE", "TZID", "MULTI", "DURATION"})) or "plain"
    wit = {"input": text, "k": k, "serialised": ser.decode("latin1")[:3000]}
    if ended_before:
        # nothing left to run: a task without future occurrences is not written at all
        if rep:
            part.violation("ser/%s/written-although-exhausted" % fkey, dict(wit, summary="stream exhausted after %d pops but a task was written" % k))
        part.nontrivial.add("ser/exhausted/" + kcls)
        return
    if len(rep) != 1:
        part.violation("ser/%s/%s/task-count" % (fkey, kcls), dict(wit, summary="one task serialised after %d pops, %d tasks read back" % (k, len(rep))))
        return
    part.nontrivial.add("ser/%s/%s" % (fkey, kcls))
    # attributes
    if rep[0]["uid"] != orig[0]["uid"] and xxh.xxh32(rep[0]["uid"]) == xxh.xxh32(orig[0]["uid"]):
        part.count("uid_hash_twins_in_one_process")
    elif rep[0]["uid"] != orig[0]["uid"]:
        part.violation("ser/attr/uid", dict(wit, summary="UID %r read back as %r" % (orig[0]["uid"], rep[0]["uid"])))
    for fld, e, g in cmp_fields(orig[0]["fields"], rep[0]["fields"], "ser"):
        part.violation("ser/attr/%s" % fld, dict(wit, field=fld, expected=e, observed=g,
                                                summary="attribute %s is %r before and %r after writing the task out and reading it back" % (fld, e, g)))
    # the SHIFT of a (single) rule is written as it was read: sign (also of -0B, weekend back to Friday), amount, B, suffix
    srules = [l.split(":", 1)[1] for l in ser.decode("latin1").split("\n") if l.startswith("RRULE:")]
    if len(meta["rules"]) == 1 and len(srules) == 1 and "SHIFT=" in meta["rules"][0]:
        tok = lambda r: ([p[6:] for p in r.strip().split(";") if p.startswith("SHIFT=")] or [""])[0]
        a, b = tok(meta["rules"][0]), tok(srules[0])
        part.count("shift_spellings_compared")
        if shift_meaning(a) != shift_meaning(b):
            part.violation("ser/shift-spelling", dict(wit, summary="SHIFT=%s %s is written out as SHIFT=%s %s"
                                                      % (a, shift_meaning(a), b or "(nothing)", shift_meaning(b))))
    # remaining occurrences with durations
    r0 = r_occ.get(0, [])
    part.count("occurrences_compared", min(len(a0), len(r0)))
    if a0 != r0 and sorted(a0) == sorted(r0):
        # the same occurrences in another order: the order of a stream is C16's business, not the serialiser's
        part.count("same_occurrences_in_other_order")
    elif a0 != r0:
        # find the first difference
        i = 0
        while i < min(len(a0), len(r0)) and a0[i] == r0[i]:
            i += 1
        ea = a0[i] if i < len(a0) else "(none)"
        er = r0[i] if i < len(r0) else "(none)"
        same_start = ea.split()[0] == er.split()[0]
        kind = "duration" if same_start else "occurrences"
        # a written task that starts before the first occurrence still owed replays what has been consumed already:
        # a failure of its own, not to be confused with the (listed) re-anchoring defects, which only ever move later
        if kind == "occurrences" and r0 and a0 and r0[0] != "-" and a0[0] != "-" and r0[0].split()[0] < a0[0].split()[0]:
            kind = "occurrences-replayed"
        # the original stream itself goes backwards here (C16's listed cross-period disorder at a refill): what has been
        # consumed is then not a chronological prefix and "the occurrences not yet consumed" is not what a reader of the
        # written task can deliver; a kind of its own, listed for the rule families C16 lists, a violation for any other
        inst = [x.split()[0] for x in a0 if x != "-"]
        if kind.startswith("occurrences") and inst != sorted(inst):
            kind = "occurrences-original-disordered"
        # the task is written with DTSTART = its next occurrence; when that one fell into a spring-forward gap its nominal
        # wall-clock time cannot be written any more and the rule is re-anchored at the time the clocks jumped to (listed)
        if kind == "occurrences" and meta.get("tzid") and a0 and a0[0] != "-" and _in_gap_hour(meta["tzid"], a0[0].split()[0]):
            kind = "occurrences-gap-anchor"
        part.violation("ser/%s/%s/%s" % (fkey, kcls, kind),
                       dict(wit, original=a0[:8], reparsed=r0[:8],
                            summary="after %d pops the written task's %s differ at position %d: original %s, read back %s | rules: %s"
                            % (k, kind, i, ea, er, " | ".join(meta["rules"]))))
    elif len(part.samples) < 3:
        part.sample({"rules": meta["rules"], "k": k, "serialised_rrule": [l for l in ser.decode("latin1").split("\n") if l.startswith(("RRULE", "DTSTART"))]})


def cli_case(part, rng, root):
    """(3) echse merge [--unroll DT] F | echse unroll -   vs   echse unroll [--from DT] F ; echsq -n add F"""
    echse = build.exe(root, "asan", "echse")
    env = dict(os.environ)
    env.update(SAN_ENV)
    data, model = calgen.gen_calendar(rng, nev=rng.choice([1, 2, 4]), opts={"cheap_rules": True, "globals": False, "no_subdaily": True, "max_rules": 1})
    d = tempfile.mkdtemp(prefix="c05-")
    try:
        fn = os.path.join(d, "in.ics")
        open(fn, "wb").write(data)
        part.evaluations += 1
        till = "%d-01-01" % (max(e["dtstart"].year for e in model["events"]) + 3)
        a = subprocess.run([echse, "unroll", "--format", "%b %u %s", "--till", till, fn], stdout=subprocess.PIPE, stderr=subprocess.PIPE, env=env, timeout=120)
        m = subprocess.run([echse, "merge", fn], stdout=subprocess.PIPE, stderr=subprocess.PIPE, env=env, timeout=120)
        b = subprocess.run([echse, "unroll", "--format", "%b %u %s", "--till", till], input=m.stdout, stdout=subprocess.PIPE, stderr=subprocess.PIPE, env=env, timeout=120)
        la = a.stdout.decode("latin1").split("\n")[:400]
        lb = b.stdout.decode("latin1").split("\n")[:400]
        if la != lb:
            i = 0
            while i < min(len(la), len(lb)) and la[i] == lb[i]:
                i += 1
            part.violation("cli/merge-unroll", {"input": data.decode("latin1"), "merged": m.stdout.decode("latin1")[:3000],
                                                "summary": "echse merge | echse unroll differs from echse unroll at line %d: %r vs %r"
                                                % (i, la[i] if i < len(la) else None, lb[i] if i < len(lb) else None)})
        else:
            part.nontrivial.add("cli/merge/%d" % min(len(model["events"]), 3))
            part.count("cli_lines_compared", len(la))
        # echsq -n add: what a client submits
        echsq = build.exe(root, "asan", "echsq")
        q = subprocess.run([echsq, "-n", "add", fn], stdout=subprocess.PIPE, stderr=subprocess.PIPE, env=env, timeout=120, cwd=d)
        part.evaluations += 1
        srv = CaseServer(build.exe(root, "asan", "h_strm"))
        try:
            o = parse_dump_occ(srv.case("fields=1 n=6 budget=10000", data))
            r = parse_dump_occ(srv.case("fields=1 n=6 budget=10000", q.stdout))
        finally:
            srv.close()
        # tasks without any future occurrence are not submitted
        o = [t for t in o if t["occ"] and t["occ"][0] != "-"]
        if [t["uid"] for t in o] != [t["uid"] for t in r]:
            part.violation("cli/echsq-add/tasks", {"input": data.decode("latin1"), "submitted": q.stdout.decode("latin1")[:3000],
                                                   "summary": "echsq -n add submits %s for %s" % ([t["uid"] for t in r], [t["uid"] for t in o])})
        else:
            cur = os.umask(0o777)
            os.umask(cur)
            for a, b in zip(o, r):
                exp = dict(a["fields"])
                exp.setdefault("wd", os.path.realpath(d))
                exp.setdefault("sh", "/bin/sh")
                if exp.get("umsk") == "1023":
                    exp["umsk"] = str(cur)
                got = dict(b["fields"])
                if "wd" in got:
                    got["wd"] = os.path.realpath(got["wd"]) if "wd" not in a["fields"] else got["wd"]
                # the owner is not the client's to say: echsd takes it from the peer credentials
                exp.pop("owner", None)
                got.pop("owner", None)
                for fld, e, g in cmp_fields(exp, got, "echsq"):
                    part.violation("cli/echsq-add/%s" % fld, {"input": data.decode("latin1"), "submitted": q.stdout.decode("latin1")[:3000],
                                                               "summary": "echsq -n add: %s of %s is %r in the file and %r in what is submitted" % (fld, a["uid"], e, g)})
                if a["occ"] != b["occ"]:
                    part.violation("cli/echsq-add/occurrences", {"input": data.decode("latin1"), "submitted": q.stdout.decode("latin1")[:3000],
                                                                 "summary": "echsq -n add: occurrences of %s differ: %s vs %s" % (a["uid"], a["occ"][:3], b["occ"][:3])})
            part.nontrivial.add("cli/echsq/%d" % min(len(o), 3))
    finally:
        import shutil
        shutil.rmtree(d, ignore_errors=True)


def crowd_case(part, rng, root):
    """(4) a calendar of hundreds to thousands of tasks through echse merge and echsq -n add: every UID comes out as written"""
    env = dict(os.environ)
    env.update(SAN_ENV)
    n = rng.choice([300, 600, 700, 1100, 1500, 3000])
    stem = "%x" % rng.getrandbits(32)
    uids = ["%s-%d%s@verif" % (stem, i, rng.choice(["", ".job", "-" + "x" * rng.randint(1, 30)])) for i in range(n)]
    evs = ["BEGIN:VEVENT\nUID:%s\nSUMMARY:true\nDTSTART:20%02d%02d%02dT%02d0000Z\nRRULE:FREQ=YEARLY\nEND:VEVENT"
           % (u, rng.randint(40, 90), rng.randint(1, 12), rng.randint(1, 28), rng.randint(0, 23)) for u in uids]
    data = ("BEGIN:VCALENDAR\nVERSION:2.0\n" + "\n".join(evs) + "\nEND:VCALENDAR\n").encode()
    d = tempfile.mkdtemp(prefix="c05-")
    try:
        fn = os.path.join(d, "in.ics")
        open(fn, "wb").write(data)
        for tool, argv in (("echse-merge", [build.exe(root, "asan", "echse"), "merge", fn]), ("echsq-add", [build.exe(root, "asan", "echsq"), "-n", "add", fn])):
            part.evaluations += 1
            p = subprocess.run(argv, stdout=subprocess.PIPE, stderr=subprocess.PIPE, env=env, timeout=300, cwd=d)
            got = [l[4:].strip() for l in p.stdout.decode("latin1").split("\n") if l.startswith("UID:")]
            part.count("crowd_uids_compared", len(got))
            lost = sorted(set(uids) - set(got))
            new = sorted(set(got) - set(uids))
            if lost or new or len(got) != len(uids):
                part.violation("crowd/%s/uid" % tool, {"input": "calendar of %d yearly tasks, UIDs %s-<i>...@verif" % (n, stem), "uids": uids[:50],
                                                       "summary": "%s of a calendar with %d tasks writes %d UID lines; %d UIDs are lost (first %s), %d are new (first %s)"
                                                       % (tool, n, len(got), len(lost), lost[:1], len(new), new[:1])})
            else:
                part.nontrivial.add("crowd/%s/%s" % (tool, "le1024" if n <= 1024 else "gt1024"))
    finally:
        import shutil
        shutil.rmtree(d, ignore_errors=True)


def parse_dump_occ(lines):
    """tasks with fields and their first occurrences (h_strm without ser=)"""
    tasks = parse_dump(lines)
    cur = None
    for l in lines:
        if l.startswith("S "):
            try:
                cur = tasks[int(l[2:])]
            except (ValueError, IndexError):
                cur = None
        elif l.startswith("O ") and cur is not None:
            cur["occ"].append(l[2:])
    return tasks


def worker(args):
    root, seed, tier, wid, nw, nf, ns, nc = args
    part = Part()
    srv = CaseServer(build.exe(root, "asan", "h_strm"), wall_timeout=120)
    rng = rng_for(seed, PROP, wid)
    # the workers share the sweep: 16 x nsweep consecutive paddings
    nsweep = 24 if tier == "quick" else 300
    sweep0 = wid * nsweep
    try:
        for k in range(max(nf, ns)):
            try:
                if k < (1 if tier == "quick" else 6):
                    crowd_case(part, rng, root)
                if k < nf:
                    field_case(srv, part, rng)
                if k < ns:
                    ser_case(srv, part, rng, tier)
                if k < nsweep:
                    # every alignment of the written task relative to the 4096-byte print buffer, one byte at a time
                    ser_case(srv, part, rng, tier, forced=big_task(sweep0 + k))
                    part.count("buffer_alignments_swept")
                if k < nc:
                    cli_case(part, rng, root)
            except HarnessCrash as e:
                if e.kind == "timeout":
                    part.inconclusive.append({"why": "over the CPU budget (C09's business)"})
                else:
                    part.violation("crash-" + e.kind, {"summary": e.detail[:800]})
            except subprocess.TimeoutExpired:
                part.inconclusive.append({"why": "cli timeout"})
    finally:
        srv.close()
    return part.export()


def main(tier):
    root = build_or_die()
    run = Run(PROP, tier)
    nf, ns, nc = (1600, 3200, 160) if tier == "quick" else (40000, 80000, 2000)
    for p in pmap(worker, [(root, run.seed, tier, w, NCPU, nf // NCPU, ns // NCPU, nc // NCPU) for w in range(NCPU)]):
        run.merge(p)
    run.cov["rule"] = ("(1) calendars with random subsets of the 17 task properties (values short / with shell metacharacters / "
                       "~1 KiB / folded, calendar-level X-ECHS-* defaults) parsed and compared field by field with the README "
                       "mapping model; (2) events over the whole input language (every RRULE part, several RRULEs, RDATE, EXDATE/"
                       "EXRULE, TZID, SCALE, SHIFT, BYEASTER, DURATION, all X-ECHS fields) serialised the way chkpnt1() does after "
                       "k in {0,1,31,62..65,130} consumed occurrences, re-parsed, and compared (attributes, next 30 occurrences with "
                       "durations) with the original stream's continuation; (3) echse merge | echse unroll vs echse unroll; "
                       "distinct = field-set signatures, (language features, k class) and CLI shapes")
    run.assumptions = ["a task whose stream is exhausted is not written (echs_task_icalify's documented behaviour)",
                       "vtod_typ/strm are internal and not compared"]
    return run.finish(min_eval=(nf + ns) // 2, min_nontrivial=40)


def replay(path):
    w = json.load(open(path))
    print(w.get("input"))
    print(json.dumps({k: w.get(k) for k in ("key", "summary", "k", "original", "reparsed")}, indent=1))
    return 1

"""C13 -- the executor runs the job as specified and routes its output as configured.
The real echsx (mailer replaced by a recorder through a link-time posix_spawn shim) executes generated
requests with a real child whose two output streams are deterministic and distinguishable; a model of
the README's routing rules predicts every file, the mail and the journal."""
import json
import os
import time
import re
import shutil
import tempfile

from .. import build, echsx
from ..common import Run, Part, pmap, rng_for, build_or_die, NCPU

PROP = "C13"
SIZES = [0, 1, 5, 100, 4096, 4097, 65536, 65537, 70000, 200000]


def stream(base, n, start=0):
    b = ord(base)
    return bytes(b + ((c * 7 + (c >> 8)) % 26) for c in range(start, start + n))


def gen_case(rng, wd, job_exe):
    c = {}
    so = rng.choice([None, "F1"])
    se = rng.choice([None, "F1", "F2"]) if so else rng.choice([None, "F2"])
    c["ofile"] = os.path.join(wd, "out.txt") if so else None
    c["efile"] = None if se is None else (c["ofile"] if se == "F1" else os.path.join(wd, "err.txt"))
    if so and se == "F2" and rng.random() < 0.6:
        # two files whose names begin alike: one is the other plus a suffix
        if rng.random() < 0.8:
            c["efile"] = c["ofile"] + rng.choice([".err", "2", "~", ".1"])
        else:
            c["efile"] = os.path.join(wd, "out")
            c["ofile"] = c["efile"] + ".txt"
    c["mailout"] = rng.random() < 0.5
    c["mailerr"] = rng.random() < 0.5
    c["mailrun"] = rng.random() < 0.3
    c["org"] = rng.random() < 0.85
    c["att"] = [] if rng.random() < 0.1 else ["joe@example.com", "ann@example.org"][:rng.choice([1, 2])]
    c["row"] = "%s/%s/%d%d" % ("F" if so else "0", {None: "0", "F1": "same", "F2": "F"}[se] if so else ("F" if se else "0"), c["mailout"], c["mailerr"])
    # the job
    steps = []
    out, err = b"", b""
    no, ne = 0, 0
    c["cwdfile"] = os.path.join(wd, "where.txt")
    steps.append("w:" + c["cwdfile"])
    c["ifile"] = None
    if rng.random() < 0.25:
        c["ifile"] = os.path.join(wd, "in.txt")
        data = bytes(rng.choice(b"0123456789\n") for _ in range(rng.choice([0, 10, 5000, 70000])))
        open(c["ifile"], "wb").write(data)
        steps.append("i")
        out += data
    big = rng.random() < 0.3
    for _ in range(rng.randint(0, 6)):
        n = rng.choice(SIZES if big else SIZES[:6])
        if rng.random() < 0.5:
            steps.append("o:%d" % n)
            out += stream("a", n, no)
            no += n
        else:
            steps.append("e:%d" % n)
            err += stream("A", n, ne)
            ne += n
    # the job is stopped for a while and continued (an operator's kill -STOP/-CONT, a CPU limiter): it is not over
    c["paused"] = 0
    if rng.random() < 0.12:
        c["paused"] = rng.choice([100, 250])
        steps.insert(rng.randint(1, len(steps)), "z:%d" % c["paused"])
    # the day of the calendar on which the job runs (the executor's wall clock is set there)
    c["clock_at"] = None
    if rng.random() < 0.3:
        import calendar
        y = rng.randint(1971, 2037)
        mo, dom = rng.choice([(2, 28), (2, 29) if y % 4 == 0 else (2, 28), (3, 1), (12, 31), (1, 1), (1, 31), (rng.randint(1, 12), rng.randint(1, 28))])
        c["clock_at"] = calendar.timegm((y, mo, dom, rng.choice([0, 12, 23]), rng.choice([0, 59]), rng.choice([0, 58])))
    c["sleep"] = 0
    if rng.random() < 0.15:
        c["sleep"] = rng.choice([150, 400])
        steps.append("s:%d" % c["sleep"])
    c["signal"] = None
    c["exit"] = 0
    r = rng.random()
    if r < 0.5:
        c["exit"] = rng.choice([0, 0, 1, 2, 3, 42, 126, 127, 128, 255])
        steps.append("x:%d" % c["exit"])
    elif r < 0.7:
        c["signal"] = rng.choice([15, 9, 10, 1, 2, 6])
        steps.append("k:%d" % c["signal"])
    c["stdout"], c["stderr"] = out, err
    # exec: otherwise the shell adds its own "Killed"/"Terminated" to stderr when the job dies of a signal
    c["cmd"] = "exec " + job_exe + " " + " ".join(steps)
    c["shell"] = rng.choice(["/bin/sh", "/bin/sh", "/bin/bash", "/bin/dash"])
    if not os.path.exists(c["shell"]):
        c["shell"] = "/bin/sh"
    # a shell that is not there: the job cannot be started, and nothing may say that it ran
    c["noshell"] = rng.random() < 0.04
    if c["noshell"]:
        c["shell"] = "/nonexistent/sh"
    c["umask"] = rng.choice([0o22, 0o27, 0o77, 0o0, 0o66, 0o137, 0o777, 0o776, 0o700, 0o1, rng.randint(0, 0o777)])
    c["norun"] = rng.random() < 0.08
    # the files may be there already, from an earlier and more talkative run
    c["stale"] = rng.random() < 0.35
    if c["stale"]:
        for f in (c["ofile"], c["efile"]):
            if f:
                open(f, "wb").write(b"#" * rng.choice([1, 500, 300000]))
    return c


def restore_case(w, wd, job_exe):
    """a recorded case in a new working directory: paths are re-based, the two streams are rebuilt from the job's script"""
    c = dict(w["case"])
    old = os.path.dirname(c["cwdfile"])
    for k in ("ofile", "efile", "ifile", "cwdfile"):
        if c.get(k):
            c[k] = os.path.join(wd, os.path.basename(c[k]))
    steps = c["cmd"].split(" ")[2:]
    out, err, no, ne = b"", b"", 0, 0
    for s in steps:
        if s == "i":
            data = (w.get("stdin") or "").encode("latin1")
            open(c["ifile"], "wb").write(data)
            out += data
        elif s.startswith("o:"):
            out += stream("a", int(s[2:]), no)
            no += int(s[2:])
        elif s.startswith("e:"):
            err += stream("A", int(s[2:]), ne)
            ne += int(s[2:])
    steps = [("w:" + c["cwdfile"]) if s.startswith("w:") else s for s in steps]
    c["cmd"] = "exec " + job_exe + " " + " ".join(steps)
    c["stdout"], c["stderr"] = out, err
    if c.get("stale"):
        for f in (c["ofile"], c["efile"]):
            if f:
                open(f, "wb").write(b"#" * 300000)
    return c


def request(c, wd):
    l = ["BEGIN:VCALENDAR", "VERSION:2.0", "BEGIN:VTODO", "UID:x13@verif", "SUMMARY:" + c["cmd"], "X-ECHS-SETUID:0", "X-ECHS-SETGID:0",
         "X-ECHS-SHELL:" + c["shell"], "LOCATION:" + wd, "X-ECHS-UMASK:0%o" % c["umask"],
         "X-ECHS-MAIL-RUN:%d" % c["mailrun"], "X-ECHS-MAIL-OUT:%d" % c["mailout"], "X-ECHS-MAIL-ERR:%d" % c["mailerr"]]
    if c["ifile"]:
        l.append("X-ECHS-IFILE:" + c["ifile"])
    if c["ofile"]:
        l.append("X-ECHS-OFILE:" + c["ofile"])
    if c["efile"]:
        l.append("X-ECHS-EFILE:" + c["efile"])
    if c["org"]:
        l.append("ORGANIZER:echse+verifhost")
    for a in c["att"]:
        l.append("ATTENDEE:" + a)
    l += ["END:VTODO", "END:VCALENDAR"]
    return "\n".join(l) + "\n"


def split_streams(data):
    lo = bytes(b for b in data if 97 <= b <= 122 or 48 <= b <= 57 or b == 10)
    up = bytes(b for b in data if 65 <= b <= 90)
    other = len(data) - len(lo) - len(up)
    return lo, up, other


def judge_blob(what, data, want_out, want_err, c, fail):
    """data must consist of exactly the wanted streams (either may be None = must be absent)"""
    lo, up, other = split_streams(data)
    exp_lo = c["stdout"] if want_out else b""
    exp_up = c["stderr"] if want_err else b""
    if other:
        fail("%s-foreign-bytes" % what, "%s holds %d bytes that belong to neither stream" % (what, other))
    if lo != exp_lo:
        kind = "lost" if len(lo) < len(exp_lo) else ("duplicated-or-extra" if len(lo) > len(exp_lo) else "garbled")
        fail("%s-stdout-%s" % (what, kind), "%s: %d bytes of stdout, expected %d (%s)" % (what, len(lo), len(exp_lo), "wanted" if want_out else "not wanted here"))
    if up != exp_up:
        kind = "lost" if len(up) < len(exp_up) else ("duplicated-or-extra" if len(up) > len(exp_up) else "garbled")
        fail("%s-stderr-%s" % (what, kind), "%s: %d bytes of stderr, expected %d (%s)" % (what, len(up), len(exp_up), "wanted" if want_err else "not wanted here"))


def run_case(root, part, rng, stored=None):
    wd = tempfile.mkdtemp(prefix="c13-")
    try:
        if stored is None:
            c = gen_case(rng, wd, build.exe(root, "asan", "h_job"))
        else:
            c = restore_case(stored, wd, build.exe(root, "asan", "h_job"))
        req = request(c, wd)
        part.evaluations += 1
        r = echsx.run_echsx(root, req, wd, args=("-v", "-n") if c["norun"] else ("-v",), clock_at=c.get("clock_at"))
        fails = []
        fail = lambda k, d: fails.append((k, d))
        row = c["row"]
        if r.rc is None:
            fail("executor-hangs", "echsx does not finish within 60 s")
        elif "AddressSanitizer" in r.stderr or "runtime error" in r.stderr or r.rc < 0:
            fail("executor-crash", "echsx dies: %s" % r.stderr[-300:])
        elif c.get("noshell") and not c["norun"]:
            part.count("jobs_that_cannot_be_started")
            if echsx.jfield(r.journal, "X-EXIT-STATUS") == "0" or (r.mail and "X-Exit-Status: 0" in r.mail):
                fail("unstartable-job-reported-as-run", "the shell %s does not exist, yet the run is reported with exit status 0" % c["shell"])
        else:
            mail_wanted = c["org"] and c["att"] and (c["mailout"] or c["mailerr"] or c["mailrun"] or c["norun"])
            if c["norun"]:
                if r.spawns:
                    fail("norun-executes", "--no-run given but the job is started: %s" % r.spawns[0][:100])
                if echsx.jfield(r.journal, "STATUS") != "CANCELLED" or "no-run" not in (echsx.jfield(r.journal, "DESCRIPTION") or ""):
                    fail("norun-not-reported", "--no-run: journal lacks the NOT RUN report: %r" % r.journal[-300:])
                if mail_wanted and (r.mail is None or "[NOT RUN]" not in r.mail):
                    fail("norun-mail", "--no-run: no [NOT RUN] mail")
                part.count("norun_requests")
            else:
                # exactly once, through the requested shell, with the command as given
                if len(r.spawns) != 1:
                    fail("spawn-count", "the job was started %d times" % len(r.spawns))
                else:
                    path, argv = echsx.spawn_argv(r.spawns[0])
                    if path != c["shell"] or len(argv) != 3 or argv[1] != "-c":
                        fail("wrong-shell", "requested %s, spawned %r" % (c["shell"], r.spawns[0][:120]))
                    elif argv[2] != c["cmd"]:
                        fail("wrong-command", "command given to the shell differs: %r" % argv[2][:200])
                # cwd, umask
                try:
                    w = open(c["cwdfile"]).read().split()
                except OSError:
                    w = None
                if not w or len(w) != 3:
                    fail("job-did-not-run", "the job left no trace (%r)" % w)
                else:
                    if os.path.realpath(w[0]) != os.path.realpath(wd):
                        fail("wrong-cwd", "job ran in %s, requested %s" % (w[0], wd))
                    if int(w[1], 8) != c["umask"]:
                        fail("wrong-umask", "job ran with umask %s, requested 0%o" % (w[1], c["umask"]))
                # files
                same = c["ofile"] and c["efile"] == c["ofile"]
                if c["ofile"]:
                    try:
                        data = open(c["ofile"], "rb").read()
                        judge_blob("ofile[%s]" % row, data, True, same, c, fail)
                    except OSError:
                        fail("ofile-missing[%s]" % row, "X-ECHS-OFILE was not created")
                if c["efile"] and not same:
                    try:
                        data = open(c["efile"], "rb").read()
                        judge_blob("efile[%s]" % row, data, False, True, c, fail)
                    except OSError:
                        fail("efile-missing[%s]" % row, "X-ECHS-EFILE was not created")
                # mail
                if mail_wanted:
                    if r.mail is None:
                        fail("mail-missing[%s]" % row, "a mail is due (out=%d err=%d run=%d) but the mailer was not fed" % (c["mailout"], c["mailerr"], c["mailrun"]))
                    else:
                        body = r.mail.split("BODY\n", 1)[1] if "BODY\n" in r.mail else r.mail
                        hdr, _, text = body.partition("\n\n")
                        judge_blob("mail[%s]" % row, text.encode("latin1"), c["mailout"], c["mailerr"], c, fail)
                        to = re.search(r"^To: (.*)$", hdr, re.M)
                        if not to or [x.strip() for x in to.group(1).split(",")] != c["att"]:
                            fail("mail-recipients", "To: %r, attendees %r" % (to.group(1) if to else None, c["att"]))
                        sj = re.search(r"^Subject: (.*)$", hdr, re.M)
                        if not sj or sj.group(1) != c["cmd"]:
                            fail("mail-subject", "Subject %r" % (sj.group(1)[:100] if sj else None))
                        xs = re.search(r"^X-Exit-Status: (.*)$", hdr, re.M)
                        if c["signal"] is None and (not xs or xs.group(1) != str(c["exit"])):
                            fail("mail-exit-status", "mail says %r, job exited with %d" % (xs.group(1) if xs else None, c["exit"]))
                        if c["signal"] is not None and (not xs or "signal %d" % c["signal"] not in xs.group(1)):
                            fail("mail-exit-status", "mail says %r, job died of signal %d" % (xs.group(1) if xs else None, c["signal"]))
                        if len(r.mailers) != 1:
                            fail("mail-count", "%d mails sent" % len(r.mailers))
                elif r.mail is not None or r.mailers:
                    fail("unwanted-mail[%s]" % row, "no mail is due (org=%s att=%d out=%d err=%d run=%d) but one was sent"
                         % (c["org"], len(c["att"]), c["mailout"], c["mailerr"], c["mailrun"]))
                # journal
                j = r.journal
                if j.count("BEGIN:VTODO") != 1 or j.count("END:VTODO") != 1:
                    fail("journal-count", "%d journal entries" % j.count("BEGIN:VTODO"))
                else:
                    if echsx.jfield(j, "UID") != "x13@verif" or echsx.jfield(j, "SUMMARY") != c["cmd"]:
                        fail("journal-identity", "journal UID %r SUMMARY %r" % (echsx.jfield(j, "UID"), (echsx.jfield(j, "SUMMARY") or "")[:80]))
                    xs, sg = echsx.jfield(j, "X-EXIT-STATUS"), echsx.jfield(j, "X-SIGNAL")
                    if c["signal"] is None:
                        if xs != str(c["exit"]) or sg is not None:
                            fail("journal-exit-status", "job exited with %d, journal says status %s signal %s" % (c["exit"], xs, sg))
                    elif sg != str(c["signal"]):
                        fail("journal-signal", "job died of signal %d, journal says status %s signal %s" % (c["signal"], xs, sg))
                    rt = echsx.jfield(j, "X-REAL-TIME")
                    rt = float(rt.rstrip("s")) if rt else None
                    # (the start stamp is taken after the spawn call has returned)
                    took = c["sleep"] + c.get("paused", 0)
                    if rt is None or rt < took / 1000.0 - 0.1 or rt > took / 1000.0 + 5.0:
                        fail("journal-times", "job slept %d ms and was stopped for %d, journal says X-REAL-TIME %s" % (c["sleep"], c.get("paused", 0), rt))
                    ds, dc = echsx.jfield(j, "DTSTART"), echsx.jfield(j, "COMPLETED")
                    if not ds or not dc or ds > dc:
                        fail("journal-times", "DTSTART %s COMPLETED %s" % (ds, dc))
                    elif c.get("clock_at"):
                        # the executor's clock was set: the stamps are that day and time, to within the run's length
                        import calendar
                        part.count("runs_on_a_set_calendar_day")
                        for name in ("DTSTART", "COMPLETED", "DTSTAMP"):
                            v = echsx.jfield(j, name) or ""
                            m = re.match(r"(\d{4})(\d\d)(\d\d)T(\d\d)(\d\d)(\d\d)Z$", v)
                            try:
                                e = calendar.timegm(tuple(int(x) for x in m.groups())) if m and 1 <= int(m.group(2)) <= 12 and 1 <= int(m.group(3)) <= 31 else None
                            except (ValueError, OverflowError):
                                e = None
                            if e is None or not (c["clock_at"] - 2 <= e <= c["clock_at"] + took / 1000.0 + 20):
                                fail("journal-calendar-date", "the run started at epoch %d (%s UTC), journal says %s:%s"
                                     % (c["clock_at"], time.strftime("%Y-%m-%d %H:%M:%S", time.gmtime(c["clock_at"])), name, v))
                                break
            # temporary files
            for t in r.tmpfiles:
                if os.path.exists(t):
                    fail("tmpfile-left-behind[%s]" % row, "%s still exists after echsx has finished" % t)
                    try:
                        os.unlink(t)
                    except OSError:
                        pass
        if c.get("paused") and not c["norun"]:
            part.count("jobs_stopped_and_continued")
        part.count("bytes_routed", len(c["stdout"]) + len(c["stderr"]))
        part.count("mails_recorded", 1 if r.mail else 0)
        part.count("tmpfiles_seen", len(r.tmpfiles))
        big = max(len(c["stdout"]), len(c["stderr"])) > 65536
        part.nontrivial.add("%s %s %s%s%s" % (row, "big" if big else "small", "sig" if c["signal"] else "exit", " norun" if c["norun"] else "",
                                              " stale" if c["stale"] else ""))
        for k, d in fails:
            part.violation(k, {"input": req, "detail": d, "case": {kk: vv for kk, vv in c.items() if kk not in ("stdout", "stderr")},
                               "stdin": open(c["ifile"], "rb").read().decode("latin1") if c["ifile"] and os.path.exists(c["ifile"]) else None, "journal": r.journal[-1200:], "shim_log": r.log[:10], "stderr": r.stderr[-500:],
                               "summary": "%s (row OFILE/EFILE/MAIL-OUT,ERR = %s, %d+%d bytes)" % (d, row, len(c["stdout"]), len(c["stderr"]))})
        if not fails and len(part.samples) < 2 and big and r.mail:
            part.sample({"row": row, "stdout_bytes": len(c["stdout"]), "stderr_bytes": len(c["stderr"]), "exit": c["exit"], "signal": c["signal"],
                         "mail_body_bytes": len(r.mail), "tmpfiles": len(r.tmpfiles)})
    finally:
        shutil.rmtree(wd, ignore_errors=True)


PAYLOAD = ["a", "b c", "\\", "\\n", "\\\\", ",", ";", ", ", "\"", "x\\y", "%s", "\n", "\\t", ":", "=", "#", "  ", "\\,", "\\;"]


def ical_escape(s, rng):
    out = []
    for ch in s:
        if ch == "\\":
            out.append("\\\\")
        elif ch == "\n":
            out.append(rng.choice(["\\n", "\\N"]))
        elif ch in ",;":
            out.append("\\" + ch if rng.random() < 0.8 else ch)
        else:
            out.append(ch)
    return "".join(out)


def e2e_case(root, part, rng):
    """the job as the user specified it: file -> echsq -n add -> echsd harness -> request -> real echsx -> what the shell is given"""
    import subprocess
    from .. import sched
    from ..common import SAN_ENV
    d = tempfile.mkdtemp(prefix="c13e-")
    try:
        now = float(rng.randint(1200000000, 1600000000)) + 0.5
        evs = []
        for i in range(rng.choice([1, 2, 4])):
            payload = "".join(rng.choice(PAYLOAD) for _ in range(rng.randint(1, 12)))
            cmd = ": '%s'" % payload
            wd = os.path.join(d, "w%d" % i)
            os.mkdir(wd)
            ofile = os.path.join(wd, rng.choice(["out.txt", "o\\ut.txt", "o,ut.txt", "o ut.txt"]))
            start = int(now) + 60 + i
            text = "\n".join(["BEGIN:VEVENT", "UID:e%d@verif" % i, "SUMMARY:" + ical_escape(cmd, rng), "DTSTART:" + __import__("vlib.props.C04", fromlist=["fmt_dt"]).fmt_dt(start),
                              "LOCATION:" + ical_escape(wd, rng), "X-ECHS-SHELL:/bin/sh", "X-ECHS-OFILE:" + ical_escape(ofile, rng), "END:VEVENT"])
            evs.append({"uid": "e%d@verif" % i, "cmd": cmd, "wd": wd, "ofile": ofile, "text": text})
        fn = os.path.join(d, "in.ics")
        open(fn, "w").write("BEGIN:VCALENDAR\nVERSION:2.0\n" + "\n".join(e["text"] for e in evs) + "\nEND:VCALENDAR\n")
        env = dict(os.environ)
        env.update(SAN_ENV)
        q = subprocess.run([build.exe(root, "asan", "echsq"), "-n", "add", fn], stdout=subprocess.PIPE, stderr=subprocess.PIPE, env=env, timeout=120, cwd=d)
        if q.returncode != 0 or b"BEGIN:VEVENT" not in q.stdout:
            part.inconclusive.append({"why": "echsq -n add refuses the file (C05/C10 territory)"})
            return
        spool = os.path.join(d, "spool")
        os.mkdir(spool)
        sc = sched.Script(spool, now)
        sc.add("lives -1")
        sc.req(0, q.stdout)
        sc.add("run %.6f" % (now + 70))
        events, out, err, rc = sched.run_script(root, sc.text(), iter_log=False)
        if events is None or rc != 0:
            head, frames = sched.san_summary(err)
            part.violation("daemon-crash/" + (">".join(frames[:2]) or "rc%s" % rc), {"input": sc.text(), "summary": (head or err[-300:])[:300]})
            return
        vt = {}
        for e in events:
            if e[0] == "VTODO":
                vt.setdefault(sched.vtodo_uid(e[2]), e[2])
        for ev in evs:
            part.evaluations += 1
            wit = {"input": open(fn).read(), "event": ev["text"], "submitted": q.stdout.decode("latin1")[:1500]}
            req = vt.get(ev["uid"])
            if req is None:
                part.violation("e2e/no-execution-request", dict(wit, summary="%s: never started by the daemon" % ev["uid"]))
                continue
            wit["request"] = req
            r = echsx.run_echsx(root, req, d)
            if r.rc is None or "AddressSanitizer" in r.stderr or "runtime error" in r.stderr:
                part.violation("executor-crash", dict(wit, summary="echsx dies on the daemon's request: %s" % r.stderr[-300:]))
                continue
            if len(r.spawns) != 1:
                part.violation("e2e/spawn-count", dict(wit, summary="job started %d times: %s" % (len(r.spawns), r.stderr[-200:])))
                continue
            path, argv = echsx.spawn_argv(r.spawns[0])
            part.count("e2e_requests_executed")
            if len(argv) != 3 or argv[2] != ev["cmd"]:
                part.violation("e2e/wrong-command", dict(wit, summary="the user's command is %r, the shell is given %r" % (ev["cmd"], argv[2] if len(argv) > 2 else argv)))
            elif not os.path.exists(ev["ofile"]):
                part.violation("e2e/wrong-output-file", dict(wit, summary="X-ECHS-OFILE %r was not created (cwd %r)" % (ev["ofile"], ev["wd"])))
            else:
                part.nontrivial.add("e2e bs=%d nl=%d comma=%d" % (min(ev["cmd"].count("\\"), 3), "\n" in ev["cmd"], "," in ev["cmd"]))
    finally:
        shutil.rmtree(d, ignore_errors=True)


def journal_case(root, part, rng):
    """several executors report into one journal the way the daemon sets it up: each gets its own descriptor of the file,
    positioned at the end when it is started; they finish in another order than they were started"""
    import subprocess
    from ..common import SAN_ENV
    wd = tempfile.mkdtemp(prefix="c13j-")
    try:
        job = build.exe(root, "asan", "h_job")
        jf = os.path.join(wd, "echsj.ics")
        open(jf, "w").write("" if rng.random() < 0.5 else "BEGIN:VTODO\nUID:old@verif\nSUMMARY:earlier entry\nEND:VTODO\n")
        n = rng.choice([2, 3, 4])
        sleeps = rng.sample([5, 120, 250, 400, 60], n)
        codes = [rng.choice([0, 1, 3, 42]) for _ in range(n)]
        env = dict(os.environ)
        env.update(SAN_ENV)
        env["HX_SENDMAIL"] = build.exe(root, "asan", "h_sendmail")
        procs = []
        part.evaluations += 1
        for i in range(n):
            req = ("BEGIN:VCALENDAR\nVERSION:2.0\nBEGIN:VTODO\nUID:j%d@verif\nSUMMARY:exec %s s:%d x:%d\nX-ECHS-SETUID:0\nX-ECHS-SETGID:0\n"
                   "X-ECHS-SHELL:/bin/sh\nLOCATION:%s\nEND:VTODO\nEND:VCALENDAR\n" % (i, job, sleeps[i], codes[i], wd))
            fd = os.open(jf, os.O_WRONLY | os.O_CREAT, 0o600)
            os.lseek(fd, 0, os.SEEK_END)
            p = subprocess.Popen([build.exe(root, "asan", "h_echsx"), "-v"], stdin=subprocess.PIPE, stdout=fd, stderr=subprocess.PIPE, env=env, cwd=wd)
            os.close(fd)
            procs.append((p, req))
        for p, req in procs:
            p.stdin.write(req.encode())
            p.stdin.close()
        errs = []
        for p, req in procs:
            try:
                p.wait(timeout=60)
                errs.append(p.stderr.read().decode("latin1"))
            except subprocess.TimeoutExpired:
                p.kill()
                errs.append("TIMEOUT")
        text = open(jf).read()
        fails = []
        if any("AddressSanitizer" in e or "runtime error" in e or e == "TIMEOUT" for e in errs):
            fails.append(("executor-crash", "echsx dies or hangs while reporting: %s" % [e[-200:] for e in errs if e][:1]))
        blocks = re.findall(r"BEGIN:VTODO\n(.*?)END:VTODO\n", text, re.S)
        rest = re.sub(r"BEGIN:VTODO\n.*?END:VTODO\n", "", text, flags=re.S)
        if rest.strip() or text.count("BEGIN:VTODO") != text.count("END:VTODO"):
            fails.append(("journal-garbled", "the journal holds text outside complete entries (%d BEGIN, %d END, %d stray bytes)"
                          % (text.count("BEGIN:VTODO"), text.count("END:VTODO"), len(rest.strip()))))
        got = {}
        for b in blocks:
            u = re.search(r"^UID:(.*)$", b, re.M)
            xs = re.search(r"^X-EXIT-STATUS:(.*)$", b, re.M)
            got.setdefault(u.group(1) if u else None, []).append(xs.group(1) if xs else None)
        for i in range(n):
            g = got.get("j%d@verif" % i, [])
            if len(g) != 1:
                fails.append(("journal-entry-lost" if not g else "journal-entry-duplicated",
                              "run j%d (slept %d ms, %d runs in flight): %d journal entries" % (i, sleeps[i], n, len(g))))
            elif g[0] != str(codes[i]):
                fails.append(("journal-exit-status", "run j%d exited with %d, journal says %s" % (i, codes[i], g[0])))
        if "old@verif" not in got and "earlier entry" in open(jf).read() + "x" and False:
            pass
        part.count("concurrent_journal_runs", n)
        part.nontrivial.add("journal n=%d order=%s" % (n, "".join(str(sorted(sleeps).index(s)) for s in sleeps)))
        for k, d in fails:
            part.violation(k, {"input": [r for _, r in procs], "journal": text[-2000:], "detail": d,
                               "summary": "%s (%d executors reporting into one journal)" % (d, n)})
    finally:
        shutil.rmtree(wd, ignore_errors=True)


def batch_case(root, part, rng):
    """one request with two to four VTODOs (echsx takes "jobs from VTODO entries"): every one of them is run as specified"""
    wd = tempfile.mkdtemp(prefix="c13b-")
    try:
        job = build.exe(root, "asan", "h_job")
        n = rng.choice([2, 2, 3, 4])
        jobs = []
        for i in range(n):
            jobs.append({"out": rng.choice([0, 7, 300, 70000]), "err": rng.choice([0, 5, 900]), "exit": rng.choice([0, 0, 1, 42]),
                         "mail": rng.random() < 0.7, "ofile": rng.random() < 0.8})
        vts = []
        for i, j in enumerate(jobs):
            l = ["BEGIN:VTODO", "UID:b%d@verif" % i, "SUMMARY:exec %s o:%d e:%d x:%d" % (job, j["out"], j["err"], j["exit"]),
                 "X-ECHS-SETUID:0", "X-ECHS-SETGID:0", "X-ECHS-SHELL:/bin/sh", "LOCATION:" + wd,
                 "X-ECHS-MAIL-OUT:%d" % j["mail"], "X-ECHS-MAIL-ERR:%d" % j["mail"]]
            if j["ofile"]:
                l.append("X-ECHS-OFILE:%s/o%d.txt" % (wd, i))
            l += ["ORGANIZER:echse+verifhost", "ATTENDEE:joe@example.com", "END:VTODO"]
            vts.append("\n".join(l))
        req = "BEGIN:VCALENDAR\nVERSION:2.0\n" + "\n".join(vts) + "\nEND:VCALENDAR\n"
        part.evaluations += 1
        r = echsx.run_echsx(root, req, wd)
        wit = {"input": req, "journal": r.journal[-3000:], "stderr": r.stderr[-600:], "shim_log": r.log[:30]}
        if r.rc is None or "AddressSanitizer" in r.stderr or "runtime error" in r.stderr:
            part.violation("batch/executor-crash", dict(wit, summary="echsx dies on a request with %d VTODOs: %s" % (n, r.stderr[-300:])))
            return
        entries = [e for e in r.journal.split("BEGIN:VTODO\n")[1:]]
        fails = []
        if len(entries) != n:
            fails.append(("batch/journal-entries", "%d VTODOs in the request, %d journal entries" % (n, len(entries))))
        for i, j in enumerate(jobs):
            e = next((x for x in entries if ("UID:b%d@verif" % i) in x), None)
            if e is None:
                fails.append(("batch/job-not-reported", "job %d of %d has no journal entry" % (i + 1, n)))
                continue
            if not e.startswith("DTSTAMP:"):
                fails.append(("batch/journal-malformed", "entry of job %d of %d begins with %r" % (i + 1, n, e.split("\n")[0][:40])))
            if echsx.jfield("BEGIN:VTODO\n" + e, "X-EXIT-STATUS") != str(j["exit"]):
                fails.append(("batch/journal-exit-status", "job %d of %d exits with %d, journal says %s" % (i + 1, n, j["exit"], echsx.jfield("BEGIN:VTODO\n" + e, "X-EXIT-STATUS"))))
            if j["ofile"]:
                fn = "%s/o%d.txt" % (wd, i)
                got = open(fn, "rb").read() if os.path.exists(fn) else None
                if got != stream("a", j["out"], 0):
                    fails.append(("batch/ofile", "job %d of %d writes %d bytes to stdout, its OFILE holds %s" % (i + 1, n, j["out"], "nothing" if got is None else "%d bytes" % len(got))))
        part.count("jobs_in_batches", n)
        part.nontrivial.add("batch n=%d mail=%d ofile=%d" % (n, sum(j["mail"] for j in jobs) > 0, sum(j["ofile"] for j in jobs) > 0))
        for k, d in fails:
            part.violation(k, dict(wit, summary=d))
    finally:
        shutil.rmtree(wd, ignore_errors=True)


def worker(args):
    root, seed, tier, wid, nw, n = args
    part = Part()
    rng = rng_for(seed, PROP, wid)
    for i in range(n):
        if i % 16 == 5:
            batch_case(root, part, rng)
        elif i % 8 == 3:
            journal_case(root, part, rng)
        elif i % 8 == 7:
            e2e_case(root, part, rng)
        else:
            run_case(root, part, rng)
    return part.export()


def main(tier):
    root = build_or_die()
    for h in ("h_echsx", "h_job", "h_sendmail"):
        if not os.path.exists(build.exe(root, "asan", h)):
            print("HARNESS-FAILURE %s not built" % h)
            return 2
    run = Run(PROP, tier)
    total = 640 if tier == "quick" else 48000
    for p in pmap(worker, [(root, run.seed, tier, w, NCPU, total // NCPU) for w in range(NCPU)]):
        run.merge(p)
    run.cov["rule"] = ("execution requests over all 20 rows of {OFILE none/F, EFILE none/same/F2} x MAIL-OUT x MAIL-ERR, with and without "
                       "ORGANIZER/ATTENDEE and MAIL-RUN, shells sh/bash/dash, umasks, IFILE, --no-run; the child writes 0..6 chunks of "
                       "0..200000 bytes (beyond pipe capacity) to stdout (lower-case stream) and stderr (upper-case stream) in random "
                       "order, then exits with a code or kills itself; in a third of the cases the output files exist already with longer stale content; oracle: each file and the mail body filtered by alphabet must equal "
                       "exactly the wanted stream(s) (lost / duplicated / garbled / foreign bytes), mail sent iff due, recipients, "
                       "subject, exit status; journal: one entry, UID, SUMMARY, true exit status or signal, times; one spawn through "
                       "the requested shell with the command as given; cwd and umask as seen by the child; every mkstemp() file gone; "
                       "distinct = (row, size class, exit kind)")
    run.cov["rule"] += ("; every 8th case is end to end: a file with commands/file names containing backslashes, commas, semicolons, "
                        "quotes and line breaks goes through echsq -n add and the echsd harness, and the shell started by echsx must be "
                        "given exactly the user's command and create exactly the named output file")
    run.cov["rule"] += ("; another 8th runs 2-4 executors at once that report into one journal file through separate descriptors positioned "
                        "at the end when they start (as the daemon does) and finish in a different order: every run's entry must be "
                        "there once, complete and with its own exit status")
    run.assumptions = ["the mailer is replaced by harness/h_sendmail through a link-time posix_spawn wrapper; setuid/setgid target is 0 (the sandbox user)",
                       "interleaving between the two streams in a shared destination is not judged (only each stream's own order)"]
    return run.finish(min_eval=total // 2, min_nontrivial=40)


def replay(path):
    """re-run the recorded case (same routing row, same job script) on the current tree and judge it again"""
    w = json.load(open(path))
    root = build_or_die()
    print("recorded:", w.get("key"), "|", (w.get("detail") or w.get("summary") or "")[:300])
    if "case" not in w:
        print(w.get("input", "")[:2000])
        return 1
    part = Part()
    run_case(root, part, None, stored=w)
    for k, (n, wit) in part.viol.items():
        print("now:", k, (wit.get("detail") or "")[:300])
    if not part.viol:
        print("now: files, mail and journal are what the routing model predicts")
    return 1 if part.viol else 0

"""C11 -- the daemon's queue is a per-user map by UID; users cannot touch each other's tasks.
Histories of add / replace / cancel / list requests from several peers are sent to the real command
layer of echsd.c (harness of C04: sock_data_cb on a socketpair with the peer's credentials), a
sequential map model in Python predicts every reply, the task table after every request, the
listings, and the identity (version, run-as uid) of everything that is executed."""
import json
import os
import re
import shutil
import tempfile

from .. import build, sched, xxh
from ..common import Run, Part, LineServer, HarnessCrash, pmap, rng_for, build_or_die, NCPU
from .C04 import fmt_dt

PROP = "C11"
PEERS = [1000, 1001, 1002]


def uid_pool(rng):
    pool = ["t%d@verif" % i for i in range(6)]
    bits = rng.choice([6, 8, 12, 16, 18, 18, 24, 28])
    # (keys agreeing in that many low bits or more: the old grow-until-separate table needed 2^(bits+1) slots for them)
    for g in xxh.colliding_groups("k%d." % rng.randint(0, 99999), 400000 if bits <= 18 else 150000, bits,
                                  want=2 if bits <= 18 else 1, size=rng.choice([2, 3]) if bits <= 18 else 2):
        pool += g
    if rng.random() < 0.4:
        # a crowd at the end of the daemon's task table (home slots 29..31 of 32, i.e. 13..15 of 16 and 5..7 of 8): their
        # probe sequences wrap around to slot 0, and cancels and retirements then pull entries across the wrap
        n, got = rng.randint(0, 10 ** 6), 0
        while got < rng.choice([4, 6, 9]):
            n += 1
            u = "e%d@verif" % n
            if (xxh.xxh32(u) & 31) >= 29:
                pool.append(u)
                got += 1
    pool.append("L" * rng.choice([100, 200, 249]) + "@verif")
    if rng.random() < 0.06:
        # beyond what the daemon's string table holds per entry (255 octets); a content line takes up to 1023
        pool.append("M" * rng.choice([250, 294, 700]) + "@verif")
    pool += ["with space@verif", "Mixed/Case:colon@verif", "x"]
    # never two UIDs with the same full 32-bit key: those are one key by design
    seen, out = set(), []
    for u in pool:
        h = xxh.xxh32(u)
        if h and h not in seen:
            seen.add(h)
            out.append(u)
    return out, bits


def vevent(uid, ver, dtstart, recurring, owner_line=None):
    l = ["BEGIN:VEVENT", "UID:" + uid, "SUMMARY:job v%d" % ver, "DTSTART:" + fmt_dt(dtstart)]
    if recurring:
        l.append("RRULE:FREQ=MINUTELY")
    if owner_line:
        l.append(owner_line)
    l.append("END:VEVENT")
    return "\n".join(l)


def vcal(evs, method=None):
    return "BEGIN:VCALENDAR\nVERSION:2.0\n" + ("METHOD:%s\n" % method if method else "") + "\n".join(evs) + "\nEND:VCALENDAR\n"


def build_history(rng, spool, tier):
    now = float(rng.randint(1100000000, 1600000000)) + 0.5
    sc = sched.Script(spool, now)
    sc.add("lives 0.01")
    pool, bits = uid_pool(rng)
    big = rng.random() < 0.12
    if big:
        # (again no two with the same 32-bit key: over tens of thousands of histories that does happen by chance)
        keys = {xxh.xxh32(u) for u in pool}
        for i in range(rng.choice([40, 150, 400, 1200] if tier == "quick" else [40, 150, 400, 1200, 3000])):
            u = "b%d.%d@verif" % (rng.randint(0, 999999), i)
            if xxh.xxh32(u) not in keys:
                keys.add(xxh.xxh32(u))
                pool.append(u)
    ops = []          # what was asked, in connection order
    t = now
    ver = 0
    peers = PEERS
    if rng.random() < 0.12:
        # a crowd: more users than the daemon keeps dirty marks for; everybody gets a task, the files are written, then
        # within one checkpoint interval most of them change something - some by giving up their only task - and look
        # at their queue
        peers = [1000 + i for i in range(rng.choice([17, 20, 24]))]
        mine = {}
        for p in peers:
            ver += 1
            uid = "crowd%d@verif" % p
            mine[p] = uid
            dt = int(t) + 3600
            sc.req(p, vcal([vevent(uid, ver, dt, True)]).encode())
            ops.append({"k": "add", "peer": p, "items": [{"uid": uid, "ver": ver, "dt": dt, "rec": True, "claimed": p}], "t": t})
            sc.add("dump")
        t += 61.0
        sc.add("run %.6f" % t)
        order = list(peers)
        rng.shuffle(order)
        for p in order[:rng.randint(16, len(peers))]:
            if rng.random() < 0.35:
                sc.req(p, vcal(["BEGIN:VEVENT\nUID:%s\nSTATUS:CANCELLED\nEND:VEVENT" % mine[p]], "CANCEL").encode())
                ops.append({"k": "cancel", "peer": p, "uids": [mine[p]], "t": t})
            else:
                ver += 1
                dt = int(t) + 3600
                sc.req(p, vcal([vevent(mine[p], ver, dt, True)]).encode())
                ops.append({"k": "add", "peer": p, "items": [{"uid": mine[p], "ver": ver, "dt": dt, "rec": True, "claimed": p}], "t": t})
            sc.add("dump")
        if rng.random() < 0.5:
            t += 61.0
            sc.add("run %.6f" % t)
        for p in order:
            sc.add("get %d /queue" % p)
            ops.append({"k": "get", "peer": p, "kind": "queue", "q": [], "other": p, "t": t})
    # idlers: connections that are accepted now and say what they want later, while others come and go; the daemon has
    # room for 64 at a time
    idle = []
    if len(peers) == len(PEERS) and rng.random() < 0.15:
        for h in range(rng.choice([3, 31, 32, 33, 40, 62])):
            p = rng.choice(PEERS)
            sc.add("open %d %d" % (p, h))
            idle.append((h, p))
        rng.shuffle(idle)

    def speak_up():
        nonlocal ver
        h, p = idle.pop()
        ver += 1
        uid = rng.choice(pool)
        dt = int(t) + 60 * rng.randint(1, 3)
        sc.add("complete %d %s" % (h, sched.hexs(vcal([vevent(uid, ver, dt, True)]).encode())))
        ops.append({"k": "add", "peer": p, "items": [{"uid": uid, "ver": ver, "dt": dt, "rec": True, "claimed": p}], "t": t})
        sc.add("dump")

    nops = rng.choice([4, 10, 25, 60]) if not big else rng.choice([80, 300] if len(pool) < 1000 else [300, 500])
    for _ in range(nops):
        r = rng.random()
        peer = rng.choice(peers if len(peers) == len(PEERS) else peers[:3])
        if idle and rng.random() < 0.3:
            speak_up()
        if r < 0.45 or (big and r < 0.75):
            evs, items = [], []
            for _ in range(rng.choice([1, 1, 2, 3]) if not big else rng.choice([1, 5, 20])):
                uid = rng.choice(pool)
                ver += 1
                recurring = rng.random() < 0.8
                if recurring:
                    dt = int(t) + 60 * rng.randint(1, 3)
                else:
                    dt = int(t) + rng.randint(5, 40)
                ow = rng.random()
                owner_line, claimed = None, peer
                if ow < 0.08:
                    owner_line = "X-ECHS-OWNER:%d" % peer
                elif ow < 0.14:
                    owner_line = "X-ECHS-OWNER:u%d" % peer
                elif ow < 0.22:
                    claimed = rng.choice([p for p in PEERS if p != peer])
                    owner_line = rng.choice(["X-ECHS-OWNER:%d", "X-ECHS-OWNER:u%d"]) % claimed
                evs.append(vevent(uid, ver, dt, recurring, owner_line))
                items.append({"uid": uid, "ver": ver, "dt": dt, "rec": recurring, "claimed": claimed})
            data = vcal(evs).encode()
            cuts = sorted(rng.sample(range(1, len(data)), min(2, len(data) - 1))) if rng.random() < 0.25 else None
            sc.req(peer, data, cuts)
            ops.append({"k": "add", "peer": peer, "items": items, "t": t})
            sc.add("dump")
        elif r < 0.65:
            uids = [rng.choice(pool) for _ in range(rng.choice([1, 1, 2, 3]))]
            evs = ["BEGIN:VEVENT\nUID:%s\nSTATUS:CANCELLED\nEND:VEVENT" % u for u in uids]
            sc.req(peer, vcal(evs, "CANCEL").encode())
            ops.append({"k": "cancel", "peer": peer, "uids": uids, "t": t})
            sc.add("dump")
        elif r < 0.85:
            kind = rng.choice(["sched", "queue", "sched?", "queue?", "u/sched", "u/queue"])
            plain = [u for u in pool if re.match(r"^[A-Za-z0-9.@]+$", u)]
            q = [rng.choice(plain) for _ in range(rng.choice([1, 2, 4]))]
            other = rng.choice(PEERS)
            path = {"sched": "/sched", "queue": "/queue",
                    "sched?": "/sched?" + "&".join("tuid=" + u for u in q),
                    "queue?": "/queue?" + "&".join("tuid=" + u for u in q),
                    "u/sched": "/u/%d/sched" % other, "u/queue": "/u/%d/queue" % other}[kind]
            sc.add("get %d %s" % (peer, path))
            ops.append({"k": "get", "peer": peer, "kind": kind, "q": q, "other": other, "t": t})
        else:
            t += rng.choice([3.0, 20.0, 70.0, 200.0])
            sc.add("run %.6f" % t)
    nidle = len(idle)
    while idle:
        speak_up()
    t += rng.choice([1.0, 65.0])
    sc.add("run %.6f" % t)
    sc.add("dump")
    return sc, ops, t, {"now": now, "idlers_at_end": nidle, "nops": len(ops), "lowbits": bits, "big": big, "pool": len(pool)}


def parse_ical_reply(text):
    out = []
    for blk in re.findall(r"BEGIN:VEVENT\n(.*?)END:VEVENT", text, re.S):
        u = re.search(r"^UID:(.*)$", blk, re.M)
        s = re.search(r"^REQUEST-STATUS:(\d)", blk, re.M)
        out.append((u.group(1) if u else None, s.group(1) == "2" if s else None))
    return out


def parse_events(text):
    out = []
    for blk in re.findall(r"BEGIN:VEVENT\n(.*?)END:VEVENT", text, re.S):
        u = re.search(r"^UID:(.*)$", blk, re.M)
        s = re.search(r"^SUMMARY:(.*)$", blk, re.M)
        out.append((u.group(1) if u else None, s.group(1) if s else None))
    return out


def judge(events, ops, t_end, fail, stats):
    model = {}         # uid -> {"owner", "ver", "dt", "rec"}
    vt = {e[1]: e[2] for e in events if e[0] == "VTODO"}
    opi = {}
    expected = {}
    pending_get = {}
    conn_op = {}
    # connection ids are handed out in script order
    for i, op in enumerate(ops):
        conn_op[i] = op
    for e in events:
        if e[0] == "REQ":
            op = conn_op.get(e[1])
            if op is None:
                continue
            if op["k"] == "add":
                exp = []
                for it in op["items"]:
                    cur = model.get(it["uid"])
                    ok = it["claimed"] == op["peer"] and (cur is None or cur["owner"] == op["peer"])
                    if ok:
                        stats["replace" if cur else "create"] += 1
                        model[it["uid"]] = {"owner": op["peer"], "ver": it["ver"], "dt": it["dt"], "rec": it["rec"], "ran": False}
                    else:
                        stats["refused_foreign" if cur and cur["owner"] != op["peer"] else "refused_claim"] += 1
                    exp.append((it["uid"], ok))
                expected[e[1]] = ("ical", exp)
            elif op["k"] == "cancel":
                exp = []
                for u in op["uids"]:
                    cur = model.get(u)
                    ok = cur is not None and cur["owner"] == op["peer"]
                    if ok:
                        del model[u]
                        stats["cancel"] += 1
                    elif cur is not None:
                        stats["cancel_refused_foreign"] += 1
                    else:
                        stats["cancel_unknown"] += 1
                    exp.append((u, ok))
                expected[e[1]] = ("ical", exp)
            else:
                mine = {u: m for u, m in model.items() if m["owner"] == op["peer"]}
                expected[e[1]] = ("get", op, dict((u, dict(m)) for u, m in mine.items()),
                                  dict((u, m["owner"]) for u, m in model.items()))
        elif e[0] == "RPL":
            exp = expected.get(e[1])
            if exp is None:
                continue
            body = e[2]
            if exp[0] == "ical":
                got = parse_ical_reply(body)
                if got != exp[1]:
                    # classify
                    if len(got) != len(exp[1]):
                        fail("reply-count", "request %d: %d instructions, %d replies: %r" % (e[1], len(exp[1]), len(got), got[:4]))
                    elif [g[1] for g in got] != [x[1] for x in exp[1]]:
                        fail("reply-status", "request %d by %d: expected %r, replied %r" % (e[1], conn_op[e[1]]["peer"], exp[1][:4], got[:4]))
                    else:
                        fail("reply-uid", "request %d: expected %r, replied %r" % (e[1], exp[1][:4], got[:4]))
                stats["replies_judged"] += len(got)
            else:
                _, op, mine, owners = exp
                m = re.match(r"HTTP/1\.1 (\d+)", body)
                code = int(m.group(1)) if m else None
                content = body.split("\r\n\r\n", 1)[1] if "\r\n\r\n" in body else ""
                kind = op["kind"]
                foreign = kind.startswith("u/") and op["other"] != op["peer"]
                if "sched" in kind:
                    listed = [l.split("\t")[0] for l in content.split("\n") if l]
                    listed_set = set(listed)
                else:
                    evs = parse_events(content)
                    listed = [u for u, _ in evs]
                    listed_set = set(listed)
                # isolation first: nothing of anybody else, ever
                for u in listed:
                    if owners.get(u) is not None and owners[u] != op["peer"]:
                        fail("listing-leaks-foreign-task", "%d asked %s and was shown %s which belongs to %d" % (op["peer"], kind, u, owners[u]))
                if foreign:
                    stats["foreign_listing_requests"] += 1
                    if code == 200 and listed_set - set(mine):
                        fail("listing-leaks-foreign-task", "%d asked for the list of %d and got %r" % (op["peer"], op["other"], sorted(listed_set)[:4]))
                    continue
                if kind in ("sched", "u/sched", "queue", "u/queue"):
                    want = set(mine)
                    if not want and kind.endswith("queue") and code == 404:
                        pass
                    elif code != 200:
                        fail("listing-status", "%d asked %s: HTTP %s" % (op["peer"], kind, code))
                    elif listed_set != want or len(listed) != len(listed_set):
                        fail("listing-wrong", "%d asked %s: listed %r, has %r" % (op["peer"], kind, sorted(listed)[:6], sorted(want)[:6]))
                    elif kind.endswith("queue"):
                        for u, s in evs:
                            if s != "job v%d" % mine[u]["ver"]:
                                fail("listing-stale-version", "%d asked %s: %s is listed as %r, current is v%d" % (op["peer"], kind, u, s, mine[u]["ver"]))
                else:
                    want = [u for u in op["q"] if u in mine]
                    if code != 200:
                        fail("listing-status", "%d asked %s: HTTP %s" % (op["peer"], kind, code))
                    elif listed != want:
                        fail("listing-wrong", "%d asked %s for %r: listed %r, expected %r" % (op["peer"], kind, op["q"], listed, want))
                stats["listings_judged"] += 1
        elif e[0] == "ARMED":
            table = e[2]
            got = dict((u, int(d["owner"])) for u, d in table.items())
            want = dict((u, m["owner"]) for u, m in model.items())
            if got != want:
                extra = sorted(set(got) - set(want))
                missing = sorted(set(want) - set(got))
                wrong = sorted(u for u in got if u in want and got[u] != want[u])
                if wrong:
                    fail("owner-changed", "task table at %.1f: %s is owned by %d, should be %d" % (e[1], wrong[0], got[wrong[0]], want[wrong[0]]))
                if extra:
                    fail("table-has-extra-task", "task table at %.1f holds %r which the map does not" % (e[1], extra[:3]))
                if missing:
                    fail("table-lost-task", "task table at %.1f lacks %r" % (e[1], missing[:3]))
            stats["table_snapshots"] += 1
            stats["max_table"] = max(stats["max_table"], len(got))
        elif e[0] == "SPAWN":
            text = vt.get(e[1], "")
            uid = sched.vtodo_uid(text)
            cur = model.get(uid)
            stats["spawns"] += 1
            if cur is None:
                fail("run-of-unknown-or-cancelled-task", "%r executed at %.1f, not in the map then" % (uid, e[3]))
                continue
            su = sched.vtodo_field(text, "X-ECHS-SETUID")
            if su is None or int(su) != cur["owner"]:
                fail("runs-as-wrong-user", "%s executed with SETUID %s, its owner is %d" % (uid, su, cur["owner"]))
            sm = sched.vtodo_field(text, "SUMMARY")
            if sm != "job v%d" % cur["ver"]:
                fail("runs-stale-version", "%s executed as %r, the current definition is v%d" % (uid, sm, cur["ver"]))
            if e[3] < cur["dt"] - 1e-6:
                fail("run-before-its-time", "%s executed at %.1f, DTSTART %d" % (uid, e[3], cur["dt"]))
            if not cur["rec"]:
                # single occurrence: retires once its child is gone (10 ms later)
                del model[uid]
    for u, m in model.items():
        if not m["rec"] and m["dt"] < t_end - 1.0:
            fail("occurrence-never-run", "%s (single occurrence at %d) was never executed, history ends %.1f" % (u, m["dt"], t_end))


def validate_hash(root):
    srv = LineServer(build.exe(root, "asan", "h_lib"))
    try:
        probes = ["a@x", "k000123@verif", "abcdefghijklmnopqrstuvwxyz0123456789", "L" * 200 + "@verif", "x"]
        got = srv.batch(["hash " + p for p in probes])
        return all(int(g, 16) == xxh.xxh32(p) for g, p in zip(got, probes))
    finally:
        srv.close()


def run_history(root, part, rng, tier):
    spool = tempfile.mkdtemp(prefix="c11-spool-")
    try:
        sc, ops, t_end, meta = build_history(rng, spool, tier)
        part.evaluations += 1
        events, out, err, rc = sched.run_script(root, sc.text(), iter_log=False, timeout=60)
        if events is None or rc != 0 or not any(e[0] == "END" for e in events):
            head, frames = sched.san_summary(err)
            part.violation("daemon-crash/" + (">".join(frames[:2]) or "rc%s" % rc),
                           {"input": sc.text(), "summary": (head or err[-300:] or "no END marker")[:300], "log": err[-3000:]})
            return
        if sched.harness_overflow(events):
            part.inconclusive.append({"why": "history outgrew the harness's process table"})
            return
        fails = []
        stats = dict.fromkeys(["create", "replace", "refused_foreign", "refused_claim", "cancel", "cancel_refused_foreign", "cancel_unknown",
                               "replies_judged", "listings_judged", "foreign_listing_requests", "table_snapshots", "spawns", "max_table"], 0)
        judge(events, ops, t_end, lambda k, d: fails.append((k, d)), stats)
        for k, v in stats.items():
            if k != "max_table":
                part.count(k, v)
        if "open " in sc.text():
            held = sc.text().count("\nopen ")
            part.count("histories_with_idle_connections")
            if held > 31:
                part.count("histories_with_more_than_31_connections_at_a_time")
        for b in (16, 64, 256):
            if stats["max_table"] > b:
                part.count("histories_with_more_than_%d_tasks" % b)
        part.nontrivial.add("c%d r%d rf%d rc%d x%d xf%d xu%d l%d f%d bits%d" % (
            min(stats["create"], 5), min(stats["replace"], 3), min(stats["refused_foreign"], 3), min(stats["refused_claim"], 2),
            min(stats["cancel"], 3), min(stats["cancel_refused_foreign"], 2), min(stats["cancel_unknown"], 2),
            min(stats["listings_judged"], 3), min(stats["foreign_listing_requests"], 2), meta["lowbits"]))
        longuid = any(len(u) > 255 for o in ops for u in ([i["uid"] for i in o.get("items", [])] + o.get("uids", []) + o.get("q", [])))
        if longuid:
            part.count("histories_with_a_uid_over_255_octets")
        for k, d in fails:
            if longuid:
                k = "uid-over-255-octets/" + k
            part.violation(k, {"input": sc.text(), "detail": d, "meta": meta, "ops": ops, "t_end": t_end,
                               "summary": "%s (history of %d requests, UIDs sharing %d low key bits)" % (d, meta["nops"], meta["lowbits"])})
        if not fails and len(part.samples) < 2 and stats["refused_foreign"] and stats["replace"] and stats["listings_judged"]:
            part.sample({"requests": meta["nops"], "shared_low_bits": meta["lowbits"], **{k: stats[k] for k in
                         ("create", "replace", "refused_foreign", "cancel", "cancel_refused_foreign", "listings_judged", "spawns", "max_table")}})
    finally:
        shutil.rmtree(spool, ignore_errors=True)


def worker(args):
    root, seed, tier, wid, nw, n = args
    part = Part()
    rng = rng_for(seed, PROP, wid)
    for _ in range(n):
        run_history(root, part, rng, tier)
    return part.export()


def main(tier):
    root = build_or_die()
    if not os.path.exists(build.exe(root, "asan", "h_echsd")):
        print("HARNESS-FAILURE h_echsd not built")
        return 2
    if not validate_hash(root):
        print("HARNESS-FAILURE vlib/xxh.py disagrees with src/hash.c")
        return 2
    run = Run(PROP, tier)
    total = 480 if tier == "quick" else 24000
    for p in pmap(worker, [(root, run.seed, tier, w, NCPU, total // NCPU) for w in range(NCPU)]):
        run.merge(p)
    run.cov["rule"] = ("histories of 4..300 requests from peers 1000/1001/1002 (own connection each, some split into chunks): batches of "
                       "1-20 adds/replaces (with and without X-ECHS-OWNER naming the peer or somebody else, numeric or by name), cancels "
                       "of own / foreign / unknown UIDs, GET /sched, /queue, ?tuid= selections and /u/<other>/ variants, clock advances "
                       "so that tasks run and single-occurrence tasks retire; UIDs from a pool with groups sharing 6..18 low bits of "
                       "the 32-bit key (6..28 bits; forcing probe sequences and table growth), a 100..254 character UID, UIDs with space/colon/slash, and up to 400 "
                       "random ones; a sequential map model predicts every REQUEST-STATUS (count, order, UID, verdict), the task table "
                       "(UID -> owner) after every request, every listing, and version + SETUID of every execution")
    run.assumptions = ["two UID strings with the same 32-bit key are one key by design and are not generated",
                       "root as a peer is not exercised (its listings of other users' queues are intended behaviour)",
                       "adds always have a future occurrence (the futureless case is judged by C04)"]
    return run.finish(min_eval=total // 2, min_nontrivial=30)


def replay(path):
    """re-run the recorded history on the current tree and judge it again with the map model"""
    w = json.load(open(path))
    root = build_or_die()
    print("recorded:", w.get("key"), "|", (w.get("detail") or w.get("summary") or "")[:300])
    events, out, err, rc = sched.run_script(root, w["input"], iter_log=False, timeout=300)
    if events is None or rc != 0 or not any(e[0] == "END" for e in events):
        print("now: the daemon harness dies (rc %s): %s" % (rc, err[-400:]))
        return 1
    if "ops" not in w:
        return 0 if w.get("key", "").startswith("daemon-crash") else 1
    fails = []
    stats = dict.fromkeys(["create", "replace", "refused_foreign", "refused_claim", "cancel", "cancel_refused_foreign", "cancel_unknown",
                           "replies_judged", "listings_judged", "foreign_listing_requests", "table_snapshots", "spawns", "max_table"], 0)
    judge(events, w["ops"], w["t_end"], lambda k, d: fails.append((k, d)), stats)
    for k, d in fails[:10]:
        print("now:", k, d[:300])
    if not fails:
        print("now: replies, table, listings and executions agree with the map model (%d replies, %d listings)" % (stats["replies_judged"], stats["listings_judged"]))
    return 1 if fails else 0

"""C16 -- occurrence streams are strictly ordered and bounded for every accepted rule, extensions included.
Oracle: the invariants themselves, checked online over every popped occurrence."""
import datetime as D
import json
import re
import zoneinfo

from .. import build, evgen, rfc5545
from ..common import (Run, Part, CaseServer, LineServer, HarnessCrash, pmap, rng_for, build_or_die, NCPU, I, unI, fmtI)
from .C01 import to_py, parse_occ

PROP = "C16"
SCALE_NUM = {"HIJRI": 9, "HIJRI.UMMULQURA": 9, "HIJRI.DIYANET": 10, "HIJRI.IA": 1, "HIJRI.IC": 2, "HIJRI.IIA": 3,
             "HIJRI.IIC": 4, "HIJRI.IIIA": 5, "HIJRI.IIIC": 6, "HIJRI.IVA": 7, "HIJRI.IVC": 8}


def lower_bound(meta, lib):
    """DTSTART in the output frame (UTC, Gregorian), or None when it cannot be determined"""
    ds = meta["dtstart"]
    if meta["dtscale"]:
        d = ds.date() if isinstance(ds, D.datetime) else ds
        a = lib.batch(["resc %x %d 0" % (I(d.year, d.month, d.day, 0xff, 0, 0, 0), SCALE_NUM[meta["dtscale"]])])[0]
        u = int(a.split()[0], 16)
        if u == 0:
            return None
        y, m, dd = unI(u)[:3]
        try:
            g = D.date(y, m, dd)
        except ValueError:
            return None
        ds = D.datetime.combine(g, ds.time()) if isinstance(ds, D.datetime) else g
    if meta["tzid"] and isinstance(ds, D.datetime):
        z = zoneinfo.ZoneInfo(meta["tzid"])
        c = []
        for fold in (0, 1):
            c.append((ds.replace(tzinfo=z, fold=fold)).astimezone(D.timezone.utc).replace(tzinfo=None))
        # a wall-clock time that exists exactly once after 1902 has one UTC image: that is the bound; otherwise (gap, fold,
        # LMT era) the exact conversion is C07's business and a day of slack is left
        back = [x.replace(tzinfo=D.timezone.utc).astimezone(z).replace(tzinfo=None) for x in c]
        # (the library reads the explicit transitions of the zone files, which end in 2037; what zoneinfo extrapolates
        # beyond that from the POSIX rule string is outside C07's range, 1902..2037)
        if c[0] == c[1] and back[0] == ds and 1902 <= ds.year <= 2037:
            return c[0]
        return min(c) - D.timedelta(hours=26)
    return ds


def sig(meta):
    feats = []
    for t in meta["rules"]:
        f = t.split(";")[0].split("=")[1][:3]
        ex = "".join(k[0] for k in ("SHIFT", "BYEASTER", "SCALE", "BYSETPOS") if k + "=" in t)
        lim = "C" if "COUNT=" in t else ("U" if "UNTIL=" in t else "o")
        feats.append(f + ex + lim)
    return "%d:%s/%s%s%s" % (len(meta["rules"]), "+".join(sorted(feats)), "D" if meta["is_date"] else "T",
                             "z" if meta["tzid"] else "", "s" if meta["dtscale"] else "")


def kind_key(meta, kind):
    """classifier: which extension features are involved + failure kind"""
    feats = set()
    for t in meta["rules"]:
        feats.add(t.split(";")[0].split("=")[1])
        for k in ("SHIFT", "BYEASTER", "SCALE", "BYSETPOS"):
            if k + "=" in t:
                feats.add(k)
    if meta["tzid"]:
        feats.add("TZID")
    if meta["dtscale"]:
        feats.add("DTSCALE")
    if len(meta["rules"]) > 1:
        feats.add("MULTI")
    return "+".join(sorted(feats)) + "/" + kind


def _gap_near(zone, a, b):
    """does the zone's UTC offset jump forward within three hours of the two (UTC) instants?"""
    z = zoneinfo.ZoneInfo(zone)
    lo = min(a, b) - D.timedelta(hours=3)
    prev = None
    for k in range(0, 8 * 4 + 1):
        t = (lo + D.timedelta(minutes=15 * k)).replace(tzinfo=D.timezone.utc).astimezone(z)
        off = t.utcoffset()
        if prev is not None and off > prev:
            return True
        prev = off
    return False


def _only_at_refill(srv, text, meta, got, i):
    """the listed finding is a matter of where the cache refill falls: started from an occurrence a little earlier, the
    same stretch lies inside one fill and must come out in order; if it does not, this is something else"""
    z = zoneinfo.ZoneInfo(meta["tzid"])
    for back in (12, 20, 30, 5):
        if i - back < 0:
            continue
        u = got[i - back]
        loc = u.replace(tzinfo=D.timezone.utc).astimezone(z)
        naive = loc.replace(tzinfo=None)
        # a start that exists exactly once
        if naive.replace(tzinfo=z, fold=0).utcoffset() != naive.replace(tzinfo=z, fold=1).utcoffset():
            continue
        if naive.replace(tzinfo=z).astimezone(D.timezone.utc).replace(tzinfo=None) != u:
            continue
        t2 = re.sub(r"^DTSTART[^\n]*$", "DTSTART;TZID=%s:%s" % (meta["tzid"], naive.strftime("%Y%m%dT%H%M%S")), text, flags=re.M)
        t2 = re.sub(r";COUNT=\d+", "", t2)
        try:
            g2, e2, m2 = parse_occ(srv.case("n=55 style=pop budget=15000", t2))
        except HarnessCrash:
            return False
        g2 = [x for x in g2 if not isinstance(x, tuple)]
        if len(g2) < back + 3:
            return False
        return all(x < y for x, y in zip(g2, g2[1:]))
    return False


def _dt(x):
    return x if isinstance(x, D.datetime) else D.datetime.combine(x, D.time(0, 0, 0))


def check_stream(part, text, meta, got, ended, mon, lib, npop, srv=None):
    fails = []
    for g in got:
        if isinstance(g, tuple):
            return [("invalid-instant", g[1])]
    if mon:
        fails.append(("pop!=peek", mon[0]))
    def okey(x):
        # documented order: an all-day value sorts before timed values of the same day
        return (x.date(), 1, x.time()) if isinstance(x, D.datetime) else (x, 0, D.time(0, 0))
    for i, (a, b) in enumerate(zip(got, got[1:])):
        if not okey(a) < okey(b):
            # rules whose candidates can leave the period (year, month) they are computed in - SHIFT, BYEASTER - are a
            # failure class of their own: neighbouring periods overlap in time and the cache refill cannot cope (listed
            # finding); the position of the pair says little, duplicates removed on the way shift the refill points
            reach = any(("SHIFT=" in t or "BYEASTER=" in t) for t in meta["rules"])
            kind = "not-increasing/cross-period" if reach else "not-increasing"
            if okey(a) == okey(b):
                # the same instant twice in a row: the stream removes that itself, across refills too; not a listed finding
                kind = "instant-repeated"
            # a wall-clock time inside a spring-forward gap is placed like an explicit DATE-TIME (RFC 5545: offset from before
            # the gap) and so coincides with a later, existing wall-clock time; the copies are merged when they meet in one
            # cache fill and come out of order when a refill separates them (listed finding, same refill limitation)
            if kind == "not-increasing" and meta["tzid"] and isinstance(a, D.datetime) and _gap_near(meta["tzid"], a, b) \
               and len(meta["rules"]) == 1 and srv is not None and _only_at_refill(srv, text, meta, got, i):
                kind = "not-increasing/dst-gap"
            fails.append((kind, "%s then %s (positions %d, %d)" % (a, b, i, i + 1)))
            break
    lb = lower_bound(meta, lib)
    if lb is not None and got:
        bad = [x for x in got if _dt(x) < _dt(lb)]
        if bad:
            fails.append(("before-DTSTART", "%s < %s" % (bad[0], lb)))
    untils = meta["untils"]
    if all(u is not None for u in untils) and got:
        mx = max(untils)
        if not isinstance(mx, D.datetime):
            mx = D.datetime.combine(mx, D.time(23, 59, 59))
        bad = [x for x in got if _dt(x) > mx]
        if bad:
            fails.append(("after-UNTIL", "%s > %s" % (bad[0], mx)))
    counts = [r.get("count") for r in meta["rule_objs"]]
    if all(c is not None for c in counts):
        tot = sum(counts)
        if len(got) > tot:
            fails.append(("more-than-COUNT", "%d > %d" % (len(got), tot)))
        elif tot < npop and not ended and len(got) >= npop:
            pass
    return fails


def gen_cross(rng):
    """rules whose candidates leave the period they are computed in (an Easter offset or a SHIFT reaching into another
    year or month): neighbouring periods overlap in time, which is where a cache refill can get the order wrong"""
    import datetime as D
    dtstart = D.datetime(rng.randint(1990, 2060), rng.randint(1, 12), rng.randint(1, 28), rng.randint(0, 23), rng.randint(0, 59), 0)
    k = rng.random()
    if k < 0.5:
        far = rng.choice([366, 365, 340, 300, 280, -150, -200, -300, -366])
        offs = [far] + [rng.choice([-46, -2, 0, 1, 39, 49, 60, -60, 100]) for _ in range(rng.randint(1, 2))]
        rng.shuffle(offs)
        rule = "FREQ=YEARLY;%sBYEASTER=%s" % (rng.choice(["", "", "INTERVAL=2;"]), ",".join(map(str, offs)))
    elif k < 0.8:
        rule = "FREQ=YEARLY;BYMONTH=%s;BYMONTHDAY=%s;SHIFT=%d" % (
            ",".join(map(str, sorted(rng.sample(range(1, 13), rng.randint(1, 3))))), ",".join(map(str, sorted(rng.sample(range(1, 29), rng.randint(1, 2))))),
            rng.choice([200, 300, 365, -200, -300, -365, 100, -100]))
    elif k < 0.9:
        rule = "FREQ=MONTHLY;BYMONTHDAY=%s;SHIFT=%d" % (",".join(map(str, sorted(rng.sample(range(1, 29), rng.randint(1, 3))))),
                                                      rng.choice([20, 31, 40, 59, -20, -31, -40, -59]))
    else:
        # month ends and month starts pushed onto the same business day: the copies belong to neighbouring periods
        rule = "FREQ=MONTHLY;BYMONTHDAY=%s;SHIFT=%s" % (rng.choice(["1,-1", "-1,1,2", "1,-1,-2", "1,2,-1,-2"]),
                                                      rng.choice(["1B", "-1B", "2B", "0B", "-0B", "1", "-1", "2"]))
    r = {"freq": rule.split(";")[0].split("=")[1]}
    if rng.random() < 0.3:
        r["count"] = rng.choice([64, 65, 128, 129, 200])
        rule += ";COUNT=%d" % r["count"]
    text = "\n".join(["BEGIN:VCALENDAR", "VERSION:2.0", "BEGIN:VEVENT", "UID:ev@verif", "SUMMARY:x",
                      "DTSTART:" + dtstart.strftime("%Y%m%dT%H%M%SZ"), "RRULE:" + rule, "END:VEVENT", "END:VCALENDAR", ""])
    meta = {"dtstart": dtstart, "is_date": False, "tzid": None, "dtscale": None, "rules": [rule], "rule_objs": [r], "untils": [None]}
    return text, meta


DST_DAYS = [("America/New_York", (2015, 3, 8)), ("America/New_York", (2021, 3, 14)), ("America/New_York", (2015, 11, 1)),
            ("Europe/Berlin", (2015, 3, 29)), ("Europe/Berlin", (2022, 3, 27)), ("Europe/Berlin", (2015, 10, 25)),
            ("Australia/Sydney", (2015, 10, 4)), ("Australia/Sydney", (2016, 4, 3)), ("America/Sao_Paulo", (2015, 10, 18)),
            ("Europe/London", (2019, 3, 31)), ("Pacific/Auckland", (2018, 9, 30)), ("America/St_Johns", (2016, 3, 13))]


def gen_dst(rng):
    """sub-hourly wall-clock candidates across a DST change: several of them fall into the hour that does not exist (or
    exists twice) on that day, where local order and UTC order differ"""
    import datetime as D
    zone, (y, m, d) = rng.choice(DST_DAYS)
    day = D.date(y, m, d) - D.timedelta(days=rng.choice([0, 0, 1]))
    dtstart = D.datetime.combine(day, D.time(rng.choice([0, 0, 1, 22, 23]), rng.choice([0, 10, 30]), 0))
    rule = rng.choice(["FREQ=MINUTELY;INTERVAL=%d" % rng.choice([10, 15, 20, 30]),
                       "FREQ=HOURLY;BYMINUTE=%s" % rng.choice(["0,20,40", "0,30", "15,45", "0,10,20,30,40,50"]),
                       "FREQ=DAILY;BYHOUR=0,1,2,3;BYMINUTE=0,30", "FREQ=SECONDLY;INTERVAL=%d" % rng.choice([600, 900, 1200]),
                       "FREQ=DAILY;BYHOUR=1,2;BYMINUTE=0,15,30,45"])
    r = {"freq": rule.split(";")[0].split("=")[1]}
    text = "\n".join(["BEGIN:VCALENDAR", "VERSION:2.0", "BEGIN:VEVENT", "UID:ev@verif", "SUMMARY:x",
                      "DTSTART;TZID=%s:%s" % (zone, dtstart.strftime("%Y%m%dT%H%M%S")), "RRULE:" + rule, "END:VEVENT", "END:VCALENDAR", ""])
    meta = {"dtstart": dtstart, "is_date": False, "tzid": zone, "dtscale": None, "rules": [rule], "rule_objs": [r], "untils": [None]}
    return text, meta


def gen_tz_until(rng):
    """a TZID event whose UNTIL falls among its occurrences: UNTIL is given in UTC, the rule works on wall-clock time"""
    import datetime as D
    zone = rng.choice(["America/New_York", "America/Los_Angeles", "Europe/Berlin", "Asia/Tokyo", "Australia/Sydney", "Asia/Kolkata",
                       "America/St_Johns", "Pacific/Auckland", "America/Sao_Paulo"])
    z = zoneinfo.ZoneInfo(zone)
    dtstart = D.datetime(rng.randint(1975, 2036), rng.randint(1, 12), rng.randint(1, 28), rng.randint(0, 23), rng.choice([0, 15, 30]), 0)
    rule = rng.choice(["FREQ=HOURLY", "FREQ=MINUTELY;INTERVAL=30", "FREQ=DAILY;BYHOUR=%s" % ",".join(map(str, sorted(rng.sample(range(24), 4)))),
                       "FREQ=HOURLY;INTERVAL=3", "FREQ=DAILY"])
    start_utc = dtstart.replace(tzinfo=z).astimezone(D.timezone.utc).replace(tzinfo=None)
    until = start_utc + D.timedelta(hours=rng.randint(1, 72), minutes=rng.choice([0, 0, 1, 29, 59]))
    rule += ";UNTIL=" + until.strftime("%Y%m%dT%H%M%SZ")
    r = {"freq": rule.split(";")[0].split("=")[1]}
    text = "\n".join(["BEGIN:VCALENDAR", "VERSION:2.0", "BEGIN:VEVENT", "UID:ev@verif", "SUMMARY:x",
                      "DTSTART;TZID=%s:%s" % (zone, dtstart.strftime("%Y%m%dT%H%M%S")), "RRULE:" + rule, "END:VEVENT", "END:VCALENDAR", ""])
    meta = {"dtstart": dtstart, "is_date": False, "tzid": zone, "dtscale": None, "rules": [rule], "rule_objs": [r], "untils": [until]}
    return text, meta


def worker(args):
    root, seed, tier, wid, nw, ncases = args
    part = Part()
    srv = CaseServer(build.exe(root, "asan", "h_strm"), wall_timeout=180)
    lib = LineServer(build.exe(root, "asan", "h_lib"))
    rng = rng_for(seed, PROP, wid)
    try:
        for _ in range(ncases):
            fam = rng.random()
            if fam < 0.08:
                text, meta = gen_cross(rng)
                part.count("cross_period_rules")
            elif fam < 0.13:
                text, meta = gen_dst(rng)
                part.count("dst_change_rules")
            elif fam < 0.17:
                text, meta = gen_tz_until(rng)
                part.count("tzid_until_rules")
            else:
                text, meta = evgen.gen_event(rng, odd=True)
            npop = rng.choice([70, 200, 600]) if tier == "quick" else rng.choice([200, 600, 2000, 5000])
            style = rng.choice(["pop", "pop", "peekpop"])
            part.evaluations += 1
            try:
                lines = srv.case("n=%d style=%s budget=15000" % (npop, style), text)
            except HarnessCrash as e:
                part.inconclusive.append({"why": "crash/hang is judged by C09: " + e.kind, "rules": meta["rules"]})
                part.count("crash_or_hang_left_to_C09")
                continue
            got, ended, mon = parse_occ(lines)
            part.count("occurrences_checked", len(got))
            part.count("refills_crossed", len(got) // 63)
            if len(got) >= 2:
                part.nontrivial.add(sig(meta))
            fails = check_stream(part, text, meta, got, ended, mon, lib, npop, srv)
            if len(meta["rules"]) > 1 and any(k == "not-increasing" for k, _ in fails):
                # in a merged event the refills of the single rules fall anywhere: look at each rule on its own
                kinds = set()
                for t in meta["rules"]:
                    solo = "\n".join(l for l in text.split("\n") if not l.startswith("RRULE:") or l == "RRULE:" + t)
                    try:
                        g1, e1, m1 = parse_occ(srv.case("n=%d style=pop budget=15000" % npop, solo))
                    except HarnessCrash:
                        kinds.add("crash")
                        continue
                    m1meta = dict(meta, rules=[t], rule_objs=[{}], untils=[None])
                    kinds |= {k for k, _ in check_stream(part, solo, m1meta, g1, e1, None, lib, npop, srv) if k.startswith("not-increasing")}
                if len(kinds) == 1 and kinds <= {"not-increasing/cross-period", "not-increasing/dst-gap"}:
                    one = next(iter(kinds))
                    fails = [((one, d + " (the single rule shows it at its own refill)") if k == "not-increasing" else (k, d))
                             for k, d in fails]
            for kind, detail in fails:
                part.violation(kind_key(meta, kind), {"input": text, "n": npop, "style": style, "detail": detail,
                                                      "observed": [str(x) for x in got[:8]],
                                                      "summary": "%s DTSTART %s%s: %s %s" % (" | ".join(meta["rules"]), meta["dtstart"],
                                                                                             " " + meta["tzid"] if meta["tzid"] else "", kind, detail)})
            if len(got) > 64 and len(part.samples) < 2:
                part.sample({"rules": meta["rules"], "dtstart": str(meta["dtstart"]), "popped": len(got),
                             "first": [str(x) for x in got[:2]], "last": str(got[-1])})
    finally:
        srv.close()
        lib.close()
    return part.export()


def main(tier):
    root = build_or_die()
    run = Run(PROP, tier)
    total = 6000 if tier == "quick" else 120000
    for p in pmap(worker, [(root, run.seed, tier, w, NCPU, total // NCPU) for w in range(NCPU)]):
        run.merge(p)
    run.cov["rule"] = ("events over the full accepted language (any BY part with any FREQ, SHIFT day/business, BYEASTER, SCALE on "
                       "rule and DTSTART, TZID, 1-3 RRULEs, COUNT around multiples of 63/64, UNTIL near DTSTART), unsynchronised "
                       "DTSTART; up to %d pops per stream; invariants: strictly increasing, >= DTSTART (zoneinfo / library "
                       "rescale bring it into UTC Gregorian), <= UNTIL, <= sum of COUNT; distinct = (rule count, FREQ+extension "
                       "features+limit kind per rule, DATE/TIME, zone, scale) with >= 2 occurrences" % (600 if tier == "quick" else 5000))
    run.assumptions = ["UNTIL is judged only when every RRULE of the event has one (union semantics)",
                       "for TZID events the DTSTART lower bound has 26 h of slack; exact zone conversion is judged by C07"]
    return run.finish(min_eval=total // 2, min_nontrivial=50)


def replay(path):
    w = json.load(open(path))
    root = build_or_die()
    srv = CaseServer(build.exe(root, "asan", "h_strm"))
    try:
        lines = srv.case("n=%d style=%s budget=15000" % (w.get("n", 200), w.get("style", "pop")), w["input"])
    except HarnessCrash as e:
        print("crash/hang", e.kind)
        return 1
    finally:
        srv.close()
    got, ended, mon = parse_occ(lines)
    print(w["input"])
    print([str(x) for x in got[:30]])
    bad = [(a, b) for a, b in zip(got, got[1:]) if not a < b]
    print("recorded:", w["key"], w.get("detail"), "| order violations now:", bad[:3])
    return 1 if bad or "not-increasing" not in w["key"] else 0

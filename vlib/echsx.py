"""driver for the real echsx (harness/h_echsx_shim.c linked in): one execution request in, journal /
mail / files / shim log out"""
import os
import re
import shutil
import subprocess
import tempfile
import time

from . import build
from .common import SAN_ENV


class XResult:
    pass


def run_echsx(root, vtodo_text, workdir, args=("-v",), timescale=None, timeout=60, flavour="asan", clock_at=None):
    """runs h_echsx on the request; returns XResult(journal, stderr, rc, log lines, mail text or None, wall)"""
    exe = build.exe(root, flavour, "h_echsx")
    env = dict(os.environ)
    env.update(SAN_ENV)
    log = os.path.join(workdir, ".hx_log")
    mail = os.path.join(workdir, ".hx_mail")
    for f in (log, mail):
        if os.path.exists(f):
            os.unlink(f)
    env["HX_LOG"] = log
    env["HX_MAILOUT"] = mail
    env["HX_SENDMAIL"] = build.exe(root, flavour, "h_sendmail")
    if timescale is not None:
        env["HX_TIMESCALE"] = "%.9f" % timescale
    if clock_at is not None:
        env["HX_CLOCK_AT"] = "%d" % clock_at
    r = XResult()
    t0 = time.time()
    try:
        p = subprocess.run([exe] + list(args), input=vtodo_text.encode("latin1"), stdout=subprocess.PIPE, stderr=subprocess.PIPE,
                           timeout=timeout, env=env, cwd=workdir)
        r.rc = p.returncode
        r.journal = p.stdout.decode("latin1")
        r.stderr = p.stderr.decode("latin1")
    except subprocess.TimeoutExpired as e:
        r.rc = None
        r.journal = (e.stdout or b"").decode("latin1")
        r.stderr = "TIMEOUT"
    r.wall = time.time() - t0
    r.log = open(log).read().split("\n") if os.path.exists(log) else []
    r.mail = open(mail, "rb").read().decode("latin1") if os.path.exists(mail) else None
    r.alarms = [int(l.split()[1]) for l in r.log if l.startswith("ALARM ")]
    r.spawns = [l for l in r.log if l.startswith("SPAWN ")]
    r.mailers = [l for l in r.log if l.startswith("MAILER")]
    r.tmpfiles = [l.split()[1] for l in r.log if l.startswith("MKSTEMP ")]
    return r


def spawn_argv(line):
    """SPAWN path [a0] [a1] ... -> (path, [args]) with the shim's %xx escapes undone"""
    m = re.match(r"(?:SPAWN|MAILER) ?(\S*)((?: \[[^\]]*\])*)$", line)
    if not m:
        return None, []
    args = [re.sub(r"%([0-9a-f]{2})", lambda x: chr(int(x.group(1), 16)), a) for a in re.findall(r"\[([^\]]*)\]", m.group(2))]
    return m.group(1), args


def jfield(journal, name):
    m = re.search(r"^%s:(.*)$" % re.escape(name), journal, re.M)
    return m.group(1) if m else None


def iso_duration_seconds(s):
    """P[nW][nD][T[nH][nM][nS]] -> seconds, None if malformed"""
    m = re.match(r"^([+-])?P(?:(\d+)W)?(?:(\d+)D)?(?:T(?:(\d+)H)?(?:(\d+)M)?(?:(\d+)S)?)?$", s.strip())
    if not m or s.strip() in ("P", "PT"):
        return None
    sign, w, d, H, M, S = m.groups()
    v = int(w or 0) * 604800 + int(d or 0) * 86400 + int(H or 0) * 3600 + int(M or 0) * 60 + int(S or 0)
    return -v if sign == "-" else v

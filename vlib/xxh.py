"""XXH32 (seed 0) as used by src/hash.c for task keys; validated against the real code by the checks that use it"""
M = 0xffffffff
P1, P2, P3, P4, P5 = 2654435761, 2246822519, 3266489917, 668265263, 374761393


def _rotl(x, r):
    return ((x << r) | (x >> (32 - r))) & M


def xxh32(b):
    if isinstance(b, str):
        b = b.encode()
    n = len(b)
    p = 0
    if n >= 16:
        v = [(P1 + P2) & M, P2, 0, (-P1) & M]
        while p <= n - 16:
            for k in range(4):
                w = int.from_bytes(b[p:p + 4], "little")
                v[k] = (_rotl((v[k] + w * P2) & M, 13) * P1) & M
                p += 4
        h = (_rotl(v[0], 1) + _rotl(v[1], 7) + _rotl(v[2], 12) + _rotl(v[3], 18)) & M
    else:
        h = P5
    h = (h + n) & M
    while p + 4 <= n:
        w = int.from_bytes(b[p:p + 4], "little")
        h = (_rotl((h + w * P3) & M, 17) * P4) & M
        p += 4
    while p < n:
        h = (_rotl((h + b[p] * P5) & M, 11) * P1) & M
        p += 1
    h ^= h >> 15
    h = (h * P2) & M
    h ^= h >> 13
    h = (h * P3) & M
    h ^= h >> 16
    return h


def colliding_groups(prefix, count, lowbits, want=8, size=3):
    """groups of `size` UIDs 'prefix<n>@verif' whose hashes share at least `lowbits` low bits (and differ)"""
    mask = (1 << lowbits) - 1
    buckets = {}
    out = []
    for i in range(count):
        u = "%s%d@verif" % (prefix, i)
        h = xxh32(u)
        l = buckets.setdefault(h & mask, [])
        if all(xxh32(x) != h for x in l):
            l.append(u)
        if len(l) == size:
            out.append(list(l))
            buckets[h & mask] = []
            if len(out) >= want:
                break
    return out

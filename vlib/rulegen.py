"""grammar-directed generator of RRULEs over the supported language (C01, and with validity
rules off for C09/C16)"""
import datetime as D

from . import rfc5545

FREQS = rfc5545.FREQS
INTERVALS = [1, 1, 1, 2, 3, 4, 5, 6, 7, 10, 12, 13, 26, 30, 45, 70, 100, 400]
COUNTS = [1, 2, 3, 5, 10, 62, 63, 64, 65, 66, 126, 127, 128, 129, 130, 200]


def pick_dtstart(rng, is_date):
    cls = rng.choice(["leapday", "eom28", "eom29", "eom30", "eom31", "w53", "fifth", "weekday", "late", "random", "random", "janfeb"])
    y = rng.randint(1902, 2098)
    if cls == "leapday":
        y = rng.choice([yy for yy in range(1904, 2097, 4)])
        d = D.date(y, 2, 29)
    elif cls == "eom28":
        y = rng.choice([yy for yy in range(1902, 2099) if yy % 4])
        d = D.date(y, 2, 28)
    elif cls == "eom29":
        d = D.date(y, rng.choice([1, 3, 5, 12]), 29)
    elif cls == "eom30":
        d = D.date(y, rng.choice([4, 6, 9, 11, 1, 12]), 30)
    elif cls == "eom31":
        d = D.date(y, rng.choice([1, 3, 5, 7, 8, 10, 12]), 31)
    elif cls == "w53":
        y = rng.choice([yy for yy in range(1902, 2099) if rfc5545.nweeks(yy) == 53])
        d = D.date(y, 12, rng.randint(25, 31))
    elif cls == "fifth":
        m = rng.randint(1, 12)
        d = D.date(y, m, rng.randint(29, rfc5545.ndim(y, m))) if rfc5545.ndim(y, m) >= 29 else D.date(y, m, 28)
    elif cls == "janfeb":
        d = D.date(y, rng.choice([1, 2]), rng.randint(1, 28))
    else:
        m = rng.randint(1, 12)
        d = D.date(y, m, rng.randint(1, rfc5545.ndim(y, m)))
    if is_date:
        return d
    if cls == "late":
        t = D.time(23, 59, 59)
    else:
        t = rng.choice([D.time(0, 0, 0), D.time(9, 0, 0), D.time(12, 30, 15), D.time(23, 59, 59), D.time(17, 45, 0),
                        D.time(rng.randint(0, 23), rng.randint(0, 59), rng.randint(0, 59))])
    return D.datetime.combine(d, t)


def _ilist(rng, lo, hi, nmax=6, neg=False, must=()):
    n = rng.choice([1, 1, 1, 2, 2, 3, 4, nmax])
    pool = list(range(lo, hi + 1))
    if neg:
        mode = rng.random()
        if mode < 0.25:
            pool = [-v for v in pool]
        elif mode < 0.5:
            pool = pool + [-v for v in pool]
    vals = set()
    for v in must:
        if rng.random() < 0.3:
            vals.add(v)
    while len(vals) < n:
        vals.add(rng.choice(pool))
    l = list(vals)
    rng.shuffle(l)
    return l


def gen_sparse(rng, is_date):
    """valid rules whose set has long gaps (many empty periods in a row)"""
    wd = rng.randint(0, 6)
    fam = rng.choice([
        {"freq": "YEARLY", "bymonth": [2], "bymonthday": [29]},
        {"freq": "YEARLY", "byyearday": [366]},
        {"freq": "YEARLY", "byyearday": [-366]},
        {"freq": "YEARLY", "byday": [(53, wd)]},
        {"freq": "YEARLY", "byday": [(-53, wd)]},
        {"freq": "YEARLY", "bymonth": [2], "byday": [(5, wd)]},
        {"freq": "YEARLY", "bymonth": [2], "bymonthday": [29], "byday": [(0, wd)]},
        {"freq": "MONTHLY", "bymonthday": [31]},
        {"freq": "MONTHLY", "bymonthday": [-31]},
        {"freq": "MONTHLY", "bymonthday": [30], "bymonth": [2, 4]},
        {"freq": "MONTHLY", "byday": [(5, wd)]},
        {"freq": "MONTHLY", "byday": [(-5, wd)]},
        {"freq": "MONTHLY", "byday": [(0, wd)], "bymonthday": [13]},
        {"freq": "MONTHLY", "byday": [(0, wd)], "bymonthday": [31]},
        {"freq": "MONTHLY", "bymonth": [2], "bymonthday": [29]},
        {"freq": "MONTHLY", "bymonth": [2], "byday": [(5, wd)]},
        {"freq": "DAILY", "bymonth": [2], "bymonthday": [29]},
        {"freq": "DAILY", "bymonthday": [31], "byday": [(0, wd)]},
        {"freq": "WEEKLY", "bymonth": [2], "byday": [(0, wd)]},
        {"freq": "DAILY", "interval": 7, "bymonthday": [13]},
    ])
    r = {k: (list(v) if isinstance(v, list) else v) for k, v in fam.items()}
    if "interval" not in r:
        r["interval"] = rng.choice([1, 1, 1, 2, 3])
    return r


def gen_rule(rng, is_date, valid=True):
    """returns a rule dict (without count/until); valid=True follows the RFC validity table"""
    if valid and rng.random() < 0.12:
        return gen_sparse(rng, is_date)
    freq = rng.choice(FREQS if not is_date else FREQS[:4])
    r = {"freq": freq, "interval": rng.choice(INTERVALS)}
    fi = FREQS.index(freq)
    p = rng.random

    def maybe(prob):
        return p() < prob
    if maybe(0.35 if fi else 0.5):
        r["bymonth"] = _ilist(rng, 1, 12, must=(2, 12, 1))
    if freq == "YEARLY":
        shape = rng.choice(["plain", "monthday", "byday", "ordday", "yearday", "weekno", "monthday+byday", "yearday+byday"])
        if shape == "monthday":
            r["bymonthday"] = _ilist(rng, 1, 31, neg=True, must=(31, 29, 30, -1, -31))
        elif shape == "byday":
            r["byday"] = [(0, w) for w in _ilist(rng, 0, 6, nmax=7)]
        elif shape == "ordday":
            if r.get("bymonth"):
                r["byday"] = [(rng.choice([1, 2, 3, 4, 5, -1, -2, -5]), rng.randint(0, 6)) for _ in range(rng.randint(1, 3))]
            else:
                r["byday"] = [(rng.choice([1, 2, 20, 52, 53, -1, -2, -53, 10]), rng.randint(0, 6)) for _ in range(rng.randint(1, 3))]
        elif shape == "yearday":
            r.pop("bymonth", None) if maybe(0.7) else None
            r["byyearday"] = _ilist(rng, 1, 366, neg=True, must=(366, -366, 1, 60, 59, -1, 365))
        elif shape == "weekno":
            if not maybe(0.3):
                r.pop("bymonth", None)          # (kept in three cases out of ten: the week's days that lie in those months)
            r["byweekno"] = _ilist(rng, 2, 51, neg=False) if maybe(0.8) else [rng.choice([-3, -10, -25, -50])]
            r["byday"] = [(0, w) for w in _ilist(rng, 0, 6, nmax=4)]
            if maybe(0.3):
                # the first and the last weeks, which reach into the neighbouring calendar year: on the days in the
                # other year readings of the RFC differ (see C01's judge), and so does the period they count for
                r["byweekno"] = sorted(set(rng.sample([1, 52, 53, -1, -2, -52, -53, 2, 51], rng.randint(1, 3))))
                r["interval"] = 1
                r["boundary_weeks"] = True
        elif shape == "monthday+byday":
            r["bymonthday"] = _ilist(rng, 1, 31, neg=True, nmax=8)
            r["byday"] = [(0, w) for w in _ilist(rng, 0, 6, nmax=3)]
        elif shape == "yearday+byday":
            r.pop("bymonth", None)
            r["byyearday"] = _ilist(rng, 1, 366, neg=True, nmax=10)
            r["byday"] = [(0, w) for w in _ilist(rng, 0, 6, nmax=4)]
    elif freq == "MONTHLY":
        shape = rng.choice(["plain", "monthday", "byday", "ordday", "monthday+byday"])
        if shape == "monthday":
            r["bymonthday"] = _ilist(rng, 1, 31, neg=True, must=(31, 29, 30, -1, -31))
        elif shape == "byday":
            r["byday"] = [(0, w) for w in _ilist(rng, 0, 6, nmax=7)]
        elif shape == "ordday":
            r["byday"] = [(rng.choice([1, 2, 3, 4, 5, -1, -2, -4, -5]), rng.randint(0, 6)) for _ in range(rng.randint(1, 3))]
        elif shape == "monthday+byday":
            r["bymonthday"] = _ilist(rng, 1, 31, neg=True, nmax=8)
            r["byday"] = [(0, w) for w in _ilist(rng, 0, 6, nmax=3)]
    elif freq == "WEEKLY":
        if maybe(0.7):
            r["byday"] = [(0, w) for w in _ilist(rng, 0, 6, nmax=7)]
    else:
        # DAILY and below: limits
        if maybe(0.3):
            r["byday"] = [(0, w) for w in _ilist(rng, 0, 6, nmax=6)]
        if maybe(0.3):
            r["bymonthday"] = _ilist(rng, 1, 31, neg=True, must=(31, 1, -1))
        if fi >= 4 and maybe(0.12):
            r["byyearday"] = _ilist(rng, 1, 366, neg=True)
    if not is_date:
        if maybe(0.3):
            r["byhour"] = _ilist(rng, 0, 23, must=(0, 23))
        if maybe(0.3):
            r["byminute"] = _ilist(rng, 0, 59, must=(0, 59, 31, 45))
        if maybe(0.25):
            r["bysecond"] = _ilist(rng, 0, 59, must=(0, 59, 31, 45))
    # BYSETPOS only together with another BY part
    others = [k for k in r if k.startswith("by")]
    if others and maybe(0.15) and fi <= 3 and not r.get("boundary_weeks"):
        r["bysetpos"] = _ilist(rng, 1, 6, neg=True, nmax=3, must=(1, -1))
    return r


def shape_sig(r, dtstart):
    parts = sorted(k for k in r if k.startswith("by") and r[k])
    signs = []
    for k in ("bymonthday", "byyearday", "byweekno", "bysetpos"):
        if r.get(k):
            v = r[k]
            signs.append(k[2:4] + ("-" if all(x < 0 for x in v) else ("+" if all(x > 0 for x in v) else "~")))
    if r.get("byday"):
        o = [x for x, _ in r["byday"]]
        signs.append("dy" + ("0" if not any(o) else ("-" if all(x < 0 for x in o if x) else "+")))
    return "%s/%s/%s/%s/%s/%s" % (r["freq"], "+".join(p[2:] for p in parts) or "none", "".join(signs) or "-",
                                  "iv>1" if r.get("interval", 1) > 1 else "iv1",
                                  "count" if r.get("count") is not None else ("until" if r.get("until") is not None else "open"),
                                  "date" if not isinstance(dtstart, D.datetime) else "dt")

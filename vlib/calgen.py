"""generator of whole calendars with task fields (C05, C10) and the README field-mapping model"""
import datetime as D

from . import rfc5545, rulegen, evgen

META = " ;|&$`\"'<>(){}*?!#~"


def val(rng, kind):
    """a field value of some class; never contains CR/LF/backslash/comma/semicolon (escapes are a separate stratum)"""
    r = rng.random()
    if kind == "path":
        base = rng.choice(["/tmp/out", "/var/tmp/job.log", "/dev/null", "rel/dir/file", "/home/user/with space/x"])
        if r < 0.15:
            return base + "-" + "p" * rng.choice([200, 700, 900])
        return base + rng.choice(["", ".%d" % rng.randint(0, 99)])
    if kind == "cmd":
        if r < 0.4:
            return rng.choice(["echo hello", "/bin/true", "sleep 1", "make -C /src all"])
        if r < 0.8:
            return "sh -c 'echo " + "".join(rng.choice(META + "abc xyz") for _ in range(rng.randint(3, 40))).replace("'", "") + "'"
        return "echo " + "x" * rng.choice([300, 800, 950])
    if kind == "addr":
        return rng.choice(["root@localhost", "ops@example.com", "a.b+c@example.org", "user"])
    if kind == "text":
        return "".join(rng.choice("abc def-ghi_XYZ 0123456789" + META) for _ in range(rng.randint(1, 60))).strip() or "x"
    return "v"


def fold(line, rng, crlf):
    """RFC 5545 line folding at arbitrary octet positions"""
    nl = "\r\n" if crlf else "\n"
    if len(line) < 20:
        return line
    out, i = [], 0
    while i < len(line):
        n = rng.choice([75, 75, 40, 10, 74]) if out else rng.choice([75, 60, 30])
        out.append(line[i:i + n])
        i += n
    return (nl + rng.choice([" ", " ", "\t"])).join(out)


def esc_text(s):
    return s.replace("\\", "\\\\").replace(";", "\\;").replace(",", "\\,").replace("\n", "\\n")


def gen_event(rng, idx, opts):
    """returns (lines, model) for one VEVENT"""
    uid = "task-%d-%s@verif" % (idx, "".join(rng.choice("abcdef0123456789") for _ in range(rng.choice([4, 8, 30]))))
    if opts.get("long_uids") and rng.random() < 0.03:
        # up to what a content line takes (1023 octets)
        uid = "task-%d-%s@verif" % (idx, "".join(rng.choice("abcdef0123456789") for _ in range(rng.choice([230, 241, 280, 900]))))
    is_date = rng.random() < 0.25
    d0 = D.date(rng.randint(1990, 2040), rng.randint(1, 12), rng.randint(1, 28))
    ds = d0 if is_date else D.datetime.combine(d0, D.time(rng.randint(0, 23), rng.randint(0, 59), rng.choice([0, 0, 30, 59])))
    m = {"uid": uid}
    L = ["UID:" + uid]
    present = set()

    def want(name, p):
        if opts.get("force") and name in opts["force"]:
            return True
        if opts.get("forbid") and name in opts["forbid"]:
            return False
        return rng.random() < p
    if want("SUMMARY", 0.9):
        m["cmd"] = val(rng, "cmd")
        L.append("SUMMARY:" + m["cmd"])
    if want("DESCRIPTION", 0.2):
        m["desc"] = val(rng, "text")
        L.append("DESCRIPTION:" + m["desc"])
    if want("ORGANIZER", 0.3):
        a = val(rng, "addr")
        m["org"] = a
        L.append("ORGANIZER:" + rng.choice(["mailto:", ""]) + a if "@" in a else "ORGANIZER:" + a)
    if want("ATTENDEE", 0.4):
        m["att"] = []
        for _ in range(rng.randint(1, 3)):
            a = val(rng, "addr")
            m["att"].append(a)
            L.append("ATTENDEE:" + (rng.choice(["mailto:", ""]) if "@" in a else "") + a)
    if want("LOCATION", 0.4):
        m["wd"] = val(rng, "path")
        L.append("LOCATION:" + m["wd"])
    if want("X-ECHS-SHELL", 0.3):
        m["sh"] = rng.choice(["/bin/sh", "/bin/bash", "/usr/bin/zsh", "/bin/dash"])
        L.append("X-ECHS-SHELL:" + m["sh"])
    for fld, key in (("X-ECHS-IFILE", "in"), ("X-ECHS-OFILE", "out"), ("X-ECHS-EFILE", "err")):
        if want(fld, 0.3):
            m[key] = val(rng, "path")
            L.append(fld + ":" + m[key])
    for fld, key in (("X-ECHS-MAIL-RUN", "mailrun"), ("X-ECHS-MAIL-OUT", "mailout"), ("X-ECHS-MAIL-ERR", "mailerr")):
        if want(fld, 0.3):
            v = rng.choice(["0", "1", "false", "true", "F", "yes", "2"])
            m[key] = (0 if v[0] in "0fF" else 1, 1)
            L.append(fld + ":" + v)
    if want("X-ECHS-MAX-SIMUL", 0.3):
        n = rng.choice([0, 1, 2, 3, 5, 62])
        m["max_simul"] = n
        L.append("X-ECHS-MAX-SIMUL:%d" % n)
    if want("X-ECHS-UMASK", 0.3):
        u = rng.choice([0o22, 0o77, 0o27, 0o777, 0, 0o2])
        m["umsk"] = u
        L.append("X-ECHS-UMASK:%s%o" % (rng.choice(["", "0"]), u))
    if want("X-ECHS-OWNER", 0.2):
        if rng.random() < 0.7:
            n = rng.choice([0, 1000, 1001, 65534])
            m["owner"] = "n:%d" % n
            L.append("X-ECHS-OWNER:%d" % n)
        else:
            m["owner"] = "s:alice"
            L.append("X-ECHS-OWNER:alice")
    if want("X-ECHS-SETUID", 0.25):
        if rng.random() < 0.5:
            m["suid"] = "n:%d" % rng.choice([1000, 1001, 33])
            L.append("X-ECHS-SETUID:" + m["suid"][2:])
        else:
            m["suid"] = "s:" + rng.choice(["nobody", "www-data"])
            L.append("X-ECHS-SETUID:" + m["suid"][2:])
    if want("X-ECHS-SETGID", 0.2):
        if rng.random() < 0.5:
            m["sgid"] = "n:%d" % rng.choice([100, 1000, 33])
            L.append("X-ECHS-SETGID:" + m["sgid"][2:])
        else:
            m["sgid"] = "s:" + rng.choice(["users", "adm"])
            L.append("X-ECHS-SETGID:" + m["sgid"][2:])
    # time
    if is_date:
        L.append("DTSTART;VALUE=DATE:" + ds.strftime("%Y%m%d"))
    else:
        L.append("DTSTART:" + ds.strftime("%Y%m%dT%H%M%SZ"))
    nr = rng.choice([0, 1, 1, 1, 2])
    if opts.get("max_rules") is not None:
        nr = min(nr, opts["max_rules"])
    rules = []
    for _ in range(nr):
        r = rulegen.gen_rule(rng, is_date, valid=True)
        r.pop("bysetpos", None)
        if opts.get("no_subdaily") and r["freq"] in ("HOURLY", "MINUTELY", "SECONDLY"):
            r = {"freq": "DAILY", "interval": r.get("interval", 1)}
        if opts.get("cheap_rules") and r["freq"] in ("HOURLY", "MINUTELY", "SECONDLY"):
            # sparse sub-daily scans cost seconds per stream; the parser does not care
            r = {"freq": r["freq"], "interval": r.get("interval", 1)}
        if rng.random() < 0.4:
            r["count"] = rng.choice([1, 5, 30, 70])
        rules.append(rfc5545.rule_text(r))
        L.append("RRULE:" + rules[-1])
    rng.shuffle(L)
    m["dtstart"] = ds
    m["rules"] = rules
    return L, m


def gen_calendar(rng, nev=None, opts=None):
    """returns (text bytes, model) ; model: {'global': {...}, 'events': [...], 'crlf': bool}"""
    opts = opts or {}
    crlf = rng.random() < 0.4
    nl = "\r\n" if crlf else "\n"
    g = {}
    head = ["BEGIN:VCALENDAR", "VERSION:2.0", "PRODID:-//verif//EN"]
    if rng.random() < 0.3:
        head.append("METHOD:" + rng.choice(["PUBLISH", "REQUEST"]))
    if opts.get("globals", True):
        if rng.random() < 0.3:
            g["owner"] = "n:%d" % rng.choice([1000, 1002])
            head.append("X-ECHS-OWNER:" + g["owner"][2:])
        if rng.random() < 0.25:
            g["umsk"] = rng.choice([0o22, 0o77])
            head.append("X-ECHS-UMASK:0%o" % g["umsk"])
        if rng.random() < 0.25:
            g["max_simul"] = rng.choice([1, 2, 4])
            head.append("X-ECHS-MAX-SIMUL:%d" % g["max_simul"])
        if rng.random() < 0.2:
            g["suid"] = "n:%d" % rng.choice([1000, 33])
            head.append("X-ECHS-SETUID:" + g["suid"][2:])
            if rng.random() < 0.5:
                g["sgid"] = "n:%d" % rng.choice([100, 33])
                head.append("X-ECHS-SETGID:" + g["sgid"][2:])
    if rng.random() < 0.15:
        head += ["BEGIN:VTIMEZONE", "TZID:Nowhere/Special", "BEGIN:STANDARD", "DTSTART:19701025T030000",
                 "TZOFFSETFROM:+0200", "TZOFFSETTO:+0100", "END:STANDARD", "END:VTIMEZONE"]
    body = []
    events = []
    nev = nev if nev is not None else rng.choice([1, 1, 2, 3, 6])
    for i in range(nev):
        L, m = gen_event(rng, i, opts)
        comp = rng.choice(["VEVENT", "VEVENT", "VEVENT", "VTODO"]) if opts.get("vtodo", False) else "VEVENT"
        body.append("BEGIN:" + comp)
        body += L
        body.append("END:" + comp)
        if rng.random() < 0.1:
            body += ["BEGIN:VJOURNAL", "UID:j%d" % i, "SUMMARY:ignored", "END:VJOURNAL"]
        events.append(m)
    lines = head + body + ["END:VCALENDAR"]
    if opts.get("fold", True):
        lines = [fold(l, rng, crlf) if rng.random() < 0.3 else l for l in lines]
    text = nl.join(lines) + nl
    return text.encode("utf-8"), {"global": g, "events": events, "crlf": crlf}


def expected_fields(ev, g):
    """README mapping: what the parsed task must carry, as the h_strm 'T' lines print it"""
    exp = {}
    for k in ("cmd", "desc", "org", "in", "out", "err", "wd", "sh"):
        if k in ev:
            exp[k] = ev[k]
    if "att" in ev:
        exp["att"] = list(ev["att"])
    for k in ("mailout", "mailerr", "mailrun"):
        v = ev.get(k, (0, 0))
        exp[k] = "%d/%d" % v
    ms = ev.get("max_simul", g.get("max_simul"))
    exp["max_simul"] = "63" if ms is None else str(ms)
    um = ev.get("umsk", g.get("umsk"))
    exp["umsk"] = "1023" if um is None else str(um)
    for k in ("owner", "suid", "sgid"):
        v = ev.get(k, g.get(k))
        if v is not None:
            exp[k] = v
    return exp

"""driver and trace checker for the echsd harness (C04, C06, C11, C12)"""
import binascii
import calendar
import os
import re
import shutil
import subprocess
import tempfile

from . import build
from .common import SAN_ENV, unesc, unI, san_summary

EPS = 0.0025          # libev's 1 ms minimum block + the harness's wake latency
TICK = 0.001


def epoch(u):
    y, m, d, H, M, S, ms = unI(u)
    if H == 0xff:
        H = M = S = 0
    return calendar.timegm((y, m, d, H, M, S, 0, 0, 0))


def hexs(b):
    if isinstance(b, str):
        b = b.encode()
    return binascii.hexlify(b).decode()


class Script:
    def __init__(self, spool, now):
        self.lines = ["spool " + spool, "now %.6f" % now, "start"]

    def add(self, l):
        self.lines.append(l)

    def req(self, uid, data, cuts=None):
        self.lines.append("req %d %s%s" % (uid, hexs(data), (" " + ",".join(map(str, cuts))) if cuts else ""))

    def text(self):
        return "\n".join(self.lines) + "\n"


def run_script(root, script_text, iter_log=True, timeout=120, flavour="asan"):
    """returns (events, raw stdout, stderr, returncode)"""
    exe = build.exe(root, flavour, "h_echsd")
    payload = (("iter=1" if iter_log else "iter=0") + "\n" + script_text).encode()
    env = dict(os.environ)
    env.update(SAN_ENV)
    # a replayed witness names a spool directory that is long gone
    made = None
    m = re.match(r"spool (\S+)", script_text)
    if m and not os.path.isdir(m.group(1)):
        made = m.group(1)
        os.makedirs(made)
    try:
        try:
            p = subprocess.run([exe], input=b"CASE s %d\n" % len(payload) + payload, stdout=subprocess.PIPE,
                               stderr=subprocess.PIPE, timeout=timeout, env=env)
        except subprocess.TimeoutExpired:
            # a loaded machine is not a hanging daemon: once more, with three times the patience
            p = subprocess.run([exe], input=b"CASE s %d\n" % len(payload) + payload, stdout=subprocess.PIPE,
                               stderr=subprocess.PIPE, timeout=3 * timeout, env=env)
    except subprocess.TimeoutExpired as e:
        return None, (e.stdout or b"").decode("latin1"), "TIMEOUT (twice, the second time with %d s)" % (3 * timeout), -9
    finally:
        if made:
            shutil.rmtree(made, ignore_errors=True)
    out = p.stdout.decode("latin1")
    return parse_log(out), out, p.stderr.decode("latin1"), p.returncode


def parse_log(out):
    ev = []
    for l in out.split("\n"):
        if not l:
            continue
        f = l.split(" ")
        k = f[0]
        try:
            if k == "ITER":
                ev.append(("ITER", float(f[1])))
            elif k == "SPAWN":
                argv = [unesc(a) for a in " ".join(f[4:]).split("|")]
                ev.append(("SPAWN", int(f[1]), int(f[2]), float(f[3]), argv))
            elif k == "VTODO":
                ev.append(("VTODO", int(f[1]), unesc(f[2]) if len(f) > 2 else ""))
            elif k == "EXIT":
                ev.append(("EXIT", int(f[1]), int(f[2]), float(f[3])))
            elif k == "REAP":
                ev.append(("REAP", int(f[1]), float(f[2])))
            elif k == "JOBCTL":
                ev.append(("JOBCTL", int(f[1]), float(f[2]), f[3]))
            elif k == "REQ":
                ev.append(("REQ", int(f[1]), int(f[2]), float(f[3])))
            elif k == "RPL":
                ev.append(("RPL", int(f[1]), unesc(f[2]) if len(f) > 2 else ""))
            elif k == "ARMED":
                tasks = {}
                for item in f[3:]:
                    d = dict(kv.split("=", 1) for kv in item.split(",") if "=" in kv)
                    d["uid"] = unesc(d.get("uid", ""))
                    d["cmd"] = unesc(d.get("cmd", ""))
                    tasks[d["uid"]] = d
                ev.append(("ARMED", float(f[1]), tasks))
            elif k == "STALL":
                ev.append(("STALL", float(f[1])))
            elif k == "FS":
                ev.append(("FS", int(f[1]), f[2], f[3], " ".join(f[5:])))
            elif k == "CHKPT-PUBLISHED":
                ev.append(("PUBLISHED", f[1], float(f[2])))
            elif k in ("STARTED", "SHUTDOWN"):
                ev.append((k, float(f[1])))
            elif k in ("DOWN", "END"):
                ev.append((k,))
            elif k == "ERR":
                ev.append(("ERR", l))
            elif k == "FSCOUNT":
                ev.append(("FSCOUNT", int(f[1])))
            elif k == "TS":
                ev.append(("TS", float(f[1])))
        except (ValueError, IndexError):
            ev.append(("GARBLED", l))
    return ev


def harness_overflow(events):
    """the history outgrew a fixed table of the harness: nothing can be concluded from it"""
    return any(e[0] == "ERR" and "process table full" in e[1] for e in events)


def vtodo_uid(text):
    m = re.search(r"^UID:(.*)$", text, re.M)
    return m.group(1).strip() if m else None


def vtodo_field(text, name):
    m = re.search(r"^%s:(.*)$" % re.escape(name), text, re.M)
    return m.group(1).strip() if m else None


def has_norun(argv):
    for a in argv[1:]:
        if a == "--no-run":
            return True
        if a.startswith("-") and not a.startswith("--") and "n" in a[1:]:
            return True
    return False


class Incarnation:
    def __init__(self, uid, owner, t0, occ, limit=None):
        self.uid = uid
        self.owner = owner
        self.t0 = t0
        # occurrences at or after the moment of loading
        self.occ = [o for o in occ if o >= t0 - 1e-9]
        self.cursor = 0
        self.end = None          # time it was cancelled / replaced
        self.limit = limit       # MAX-SIMUL or None
        self.spawns = []


def incs_to_json(incs):
    return {u: [{"owner": i.owner, "t0": i.t0, "occ": i.occ, "end": i.end, "limit": i.limit, "more": getattr(i, "more", False),
                 "conn": getattr(i, "conn", None), "end_conn": getattr(i, "end_conn", None)} for i in l] for u, l in incs.items()}


def incs_from_json(d):
    out = {}
    for u, l in d.items():
        for j in l:
            i = Incarnation(u, j["owner"], j["t0"], j["occ"], limit=j["limit"])
            i.end, i.more, i.conn, i.end_conn = j["end"], j["more"], j["conn"], j["end_conn"]
            out.setdefault(u, []).append(i)
    return out


def check_schedule(events, incarnations, t_end, part_violation, sig_prefix=""):
    """C04 rules over the event log.
    incarnations: dict uid -> list of Incarnation in load order (t0 ascending)"""
    iters = [e[1] for e in events if e[0] == "ITER"]
    spawn = {e[1]: e for e in events if e[0] == "SPAWN"}
    vt = {e[1]: e[2] for e in events if e[0] == "VTODO"}
    import bisect
    stats = {"spawns_judged": 0, "collapsed_runs": 0, "late_runs": 0}

    # which incarnation is loaded is decided by the order of the log, not by time stamps:
    # a run and a cancel request can share one instant
    current = {}
    start_at = {}
    end_at = {}
    for uid, lst in incarnations.items():
        for inc in lst:
            if getattr(inc, "conn", None) is not None:
                start_at[inc.conn] = inc
            if getattr(inc, "end_conn", None) is not None:
                end_at.setdefault(inc.end_conn, []).append(inc)
    spawn_inc = {}
    for e in events:
        if e[0] == "REQ":
            for inc in end_at.get(e[1], []):
                if current.get(inc.uid) is inc:
                    current[inc.uid] = None
            if e[1] in start_at:
                inc = start_at[e[1]]
                current[inc.uid] = inc
        elif e[0] == "SPAWN":
            spawn_inc[e[1]] = dict(current)

    def inc_for(uid, t, idx=None):
        if idx is not None and idx in spawn_inc and (start_at or end_at):
            return spawn_inc[idx].get(uid)
        lst = incarnations.get(uid, [])
        cur = None
        for inc in lst:
            if inc.t0 <= t + 1e-9 and (inc.end is None or t < inc.end - 1e-9):
                cur = inc
        return cur

    for idx in sorted(spawn):
        _, _, pid, s, argv = spawn[idx]
        uid = vtodo_uid(vt.get(idx, ""))
        stats["spawns_judged"] += 1
        if uid is None:
            part_violation("spawn-without-vtodo", "spawn %d at %.3f carries no VTODO with a UID" % (idx, s))
            continue
        inc = inc_for(uid, s, idx)
        if inc is None:
            part_violation("run-of-unknown-or-cancelled-task", "%s run at %.3f although no such task is loaded then" % (uid, s))
            continue
        inc.spawns.append((idx, s, argv))
        # everything strictly in the past is served by this run (several such occurrences collapse into it); an occurrence
        # due at this very instant may be served by it as well, or get a run of its own at the next turn of the loop
        due = []
        while inc.cursor < len(inc.occ) and inc.occ[inc.cursor] < s - 1e-6:
            due.append(inc.occ[inc.cursor])
            inc.cursor += 1
        if not due and inc.cursor < len(inc.occ) and inc.occ[inc.cursor] <= s + 1e-9:
            due.append(inc.occ[inc.cursor])
            inc.cursor += 1
        if not due:
            nxt = inc.occ[inc.cursor] if inc.cursor < len(inc.occ) else None
            if nxt is None:
                part_violation("more-runs-than-occurrences", "%s run at %.3f but all its occurrences have been served" % (uid, s))
            else:
                part_violation("run-before-its-time", "%s run at %.3f, next occurrence is only at %.3f" % (uid, s, nxt))
            continue
        if len(due) > 1:
            stats["collapsed_runs"] += 1
        o = due[0]
        # on time: the loop must not have been awake a timer tick (1 ms, libev's granularity; its clock is a
        # double that cannot tell microseconds apart at this magnitude, and a timer due exactly "now" waits
        # for the next turn) past the occurrence without serving it
        k = bisect.bisect_left(iters, o + TICK)
        if k < len(iters) and iters[k] < s - 1e-6:
            part_violation("run-late", "%s: occurrence %.3f served at %.6f although the loop was awake at %.6f" % (uid, o, s, iters[k]))
        if s - o > 1.0:
            stats["late_runs"] += 1
    # completeness
    for uid, lst in incarnations.items():
        for inc in lst:
            lim = (inc.end if inc.end is not None else t_end) - EPS
            # (an occurrence not counted above is served all the same if a run happened at or after it)
            last = max([sp[1] for sp in inc.spawns], default=-1.0)
            while inc.cursor < len(inc.occ) and inc.occ[inc.cursor] <= last + 1e-9:
                inc.cursor += 1
            missed = [o for o in inc.occ[inc.cursor:] if o <= lim]
            if missed:
                part_violation("occurrence-never-run", "%s (loaded %.3f): occurrence at %.3f was never served (history ends %.3f)"
                               % (uid, inc.t0, missed[0], lim))
    return stats


def check_maxsimul(events, incarnations, part_violation):
    """C12: running(T) <= N; -n exactly when the limit is reached; no spill-over to other tasks.
    Two counts are kept per task: children that have not exited yet (the truth) and children the
    daemon has not reaped yet (what it can know); an exit and a timer may share one loop iteration
    in either order, so each rule uses the count that makes it sound."""
    vt = {e[1]: e[2] for e in events if e[0] == "VTODO"}
    alive = {}         # uid -> set of idx, removed at EXIT
    unreaped = {}      # uid -> set of idx, removed at REAP
    idx_uid = {}
    pid_idx = {}
    st = {"norun_spawns": 0, "spawns_at_limit": 0, "max_running": 0, "runs_after_limit": 0, "limited_spawns": 0}
    hit = set()
    # which definition of a task is loaded is decided by the order of the log (a run and a replace request can
    # share one instant), exactly as in check_schedule()
    start_at, end_at, current = {}, {}, {}
    for uid, lst in incarnations.items():
        for inc in lst:
            if getattr(inc, "conn", None) is not None:
                start_at[inc.conn] = inc
            if getattr(inc, "end_conn", None) is not None:
                end_at.setdefault(inc.end_conn, []).append(inc)
    for e in events:
        if e[0] == "REQ":
            for inc in end_at.get(e[1], []):
                if current.get(inc.uid) is inc:
                    current[inc.uid] = None
            if e[1] in start_at:
                current[start_at[e[1]].uid] = start_at[e[1]]
        elif e[0] == "SPAWN":
            idx, pid, s, argv = e[1], e[2], e[3], e[4]
            uid = vtodo_uid(vt.get(idx, ""))
            idx_uid[idx] = uid
            pid_idx[pid] = idx
            if uid is None:
                continue
            lim = None
            if start_at or end_at:
                lim = current[uid].limit if current.get(uid) is not None else None
            else:
                for inc in incarnations.get(uid, []):
                    if inc.t0 <= s + 1e-9 and (inc.end is None or s < inc.end - 1e-9):
                        lim = inc.limit
            a = alive.setdefault(uid, set())
            u = unreaped.setdefault(uid, set())
            norun = has_norun(argv)
            if lim is None:
                if norun:
                    part_violation("norun-on-unlimited-task", "%s has no limit but is started with %s at %.3f" % (uid, argv[1:], s))
            else:
                st["limited_spawns"] += 1
                if len(u) < lim and norun:
                    part_violation("norun-below-limit", "%s: the daemon knows of %d running, limit %d, but starts it with %s at %.3f"
                                   % (uid, len(u), lim, argv[1:], s))
                if len(a) >= lim and not norun:
                    part_violation("limit-exceeded", "%s: %d still running, limit %d, yet another one is started at %.3f" % (uid, len(a), lim, s))
                if len(u) >= lim:
                    st["spawns_at_limit"] += 1
                    hit.add(uid)
                elif uid in hit and not norun:
                    st["runs_after_limit"] += 1
            if norun:
                st["norun_spawns"] += 1
            else:
                a.add(idx)
                u.add(idx)
                st["max_running"] = max(st["max_running"], len(a))
        elif e[0] == "EXIT":
            uid = idx_uid.get(e[1])
            if uid in alive:
                alive[uid].discard(e[1])
        elif e[0] == "REAP":
            idx = pid_idx.get(e[1])
            uid = idx_uid.get(idx)
            if uid in unreaped:
                unreaped[uid].discard(idx)
    return st

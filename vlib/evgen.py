"""generator of events over the full accepted language (C09, C16): any BY part with any FREQ,
SHIFT, BYEASTER, SCALE, TZID, several RRULEs, numbers at the parser's limits, byte mutations"""
import datetime as D

from . import rfc5545, rulegen

SCALES = ["HIJRI", "HIJRI.UMMULQURA", "HIJRI.DIYANET", "HIJRI.IA", "HIJRI.IC", "HIJRI.IIA", "HIJRI.IIC",
          "HIJRI.IIIA", "HIJRI.IIIC", "HIJRI.IVA", "HIJRI.IVC"]
ZONES = ["Europe/Berlin", "America/New_York", "Australia/Lord_Howe", "Asia/Kathmandu", "America/Santiago",
         "Africa/Casablanca", "Europe/London", "Pacific/Auckland", "America/St_Johns", "Asia/Tehran",
         "America/Sao_Paulo", "Pacific/Chatham", "UTC", "Asia/Tokyo"]


def fmt_dt(x, z=False):
    if isinstance(x, D.datetime):
        return x.strftime("%Y%m%dT%H%M%S") + ("Z" if z else "")
    return x.strftime("%Y%m%d")


def gen_shift(rng):
    r = rng.random()
    n = rng.choice([0, 1, 2, 3, 5, 7, 10, 30, 31, 59, 100, 200, 365, 366])
    if r < 0.35:
        return "%d" % (n * rng.choice([1, -1]))
    if r < 0.8:
        nb = rng.choice([0, 1, 2, 3, 4, 5, 6, 10, 21, 100, 260])
        return "%s%dB%s" % (rng.choice(["", "-", "+"]), nb, rng.choice(["", "", "+", "-"]))
    return "%d,%dB" % (n * rng.choice([1, -1]), rng.choice([1, 2, 5]) * rng.choice([1, -1]))


def any_rule_text(rng, is_date, odd=True):
    """RRULE text over the full accepted language; odd=True also emits semantically odd combinations"""
    r = rulegen.gen_rule(rng, is_date, valid=not odd)
    fi = rfc5545.FREQS.index(r["freq"])
    p = rng.random
    if odd:
        # any part with any FREQ
        if p() < 0.15:
            r["byyearday"] = rulegen._ilist(rng, 1, 366, neg=True, must=(366, -366))
        if p() < 0.1:
            r["byweekno"] = rulegen._ilist(rng, 1, 53, neg=True, must=(53, -53, 1))
        if p() < 0.15:
            r["bymonthday"] = rulegen._ilist(rng, 1, 31, neg=True, must=(31, -31))
        if p() < 0.12:
            r["byday"] = [(rng.choice([0, 0, 1, -1, 5, -5, 53, -53]), rng.randint(0, 6)) for _ in range(rng.randint(1, 4))]
        elif p() < 0.04:
            # a long list: every weekday of several weeks of the month/year (more entries than the small-set storage holds)
            ks = rng.sample([1, 2, 3, 4, 5, -1, -2, -3, -4, -5], rng.randint(2, 6))
            r["byday"] = [(k, w) for k in ks for w in rng.sample(range(7), rng.randint(3, 7))]
        if p() < 0.12:
            r["bysetpos"] = rulegen._ilist(rng, 1, 366, neg=True, must=(366, -366, 1, -1))
        if not is_date:
            if p() < 0.12:
                r["byhour"] = list(range(24)) if p() < 0.5 else rulegen._ilist(rng, 0, 23)
            if p() < 0.12:
                r["byminute"] = list(range(60)) if p() < 0.5 else rulegen._ilist(rng, 0, 59)
            if p() < 0.12:
                r["bysecond"] = list(range(60)) if p() < 0.5 else rulegen._ilist(rng, 0, 59)
    mode = p()
    if mode < 0.35:
        r["count"] = rng.choice([1, 2, 3, 62, 63, 64, 65, 126, 127, 128, 129, 190, 191, 192, 193, 500, 1000])
    text = rfc5545.rule_text(r)
    extras = []
    if p() < 0.25:
        extras.append("SHIFT=" + gen_shift(rng))
    if p() < 0.12 and r["freq"] in ("YEARLY",) or (odd and p() < 0.03):
        extras.append("BYEASTER=" + ",".join(str(rng.choice([0, 1, -1, -2, -46, 39, 49, 50, 60, -366, 366, rng.randint(-366, 366)]))
                                             for _ in range(rng.randint(1, 3))))
    if p() < 0.1:
        extras.append("SCALE=" + rng.choice(SCALES))
    if extras:
        text += ";" + ";".join(extras)
    return text, r


def gen_event(rng, odd=True, uid="ev@verif"):
    """returns (ical text, meta) ; meta: dtstart (naive), is_date, tzid, dtscale, rules [(text, dict)], until list"""
    is_date = rng.random() < 0.3
    dtstart = rulegen.pick_dtstart(rng, is_date)
    if odd and rng.random() < 0.06:
        dtstart = rng.choice([D.date(1901, 1, 1), D.date(2099, 12, 31), D.date(2098, 12, 31), D.date(1970, 1, 1)])
        if not is_date:
            dtstart = D.datetime.combine(dtstart, D.time(23, 59, 59))
    tzid = None
    dtscale = None
    params = ""
    if not is_date and rng.random() < 0.2:
        tzid = rng.choice(ZONES)
        params += ";TZID=" + tzid
    if rng.random() < 0.06:
        dtscale = rng.choice(SCALES)
        params += ";SCALE=" + dtscale
        # a plausible hijri date
        hy = rng.randint(1360, 1490)
        hd = D.date(2000, rng.randint(1, 12), rng.randint(1, 28))
        dtstart = hd.replace(year=hy) if is_date else D.datetime.combine(hd.replace(year=hy), dtstart.time())
    if is_date:
        # parameters come in any order
        params = (params + ";VALUE=DATE") if rng.random() < 0.5 else (";VALUE=DATE" + params)
    nr = rng.choice([1, 1, 1, 1, 2, 3])
    rules = []
    for _ in range(nr):
        text, r = any_rule_text(rng, is_date, odd)
        until = None
        if "COUNT=" not in text and rng.random() < 0.35 and not dtscale:
            # an UNTIL some way into the stream
            span = rng.choice([0, 1, 7, 40, 400, 4000])
            if is_date:
                until = dtstart + D.timedelta(days=span)
                text += ";UNTIL=" + until.strftime("%Y%m%d")
            else:
                until = dtstart + D.timedelta(days=span, seconds=rng.choice([0, 1, 3599, 86399]))
                text += ";UNTIL=" + until.strftime("%Y%m%dT%H%M%SZ")
        rules.append((text, r, until))
    body = ["BEGIN:VCALENDAR", "VERSION:2.0", "BEGIN:VEVENT", "UID:" + uid, "SUMMARY:x",
            "DTSTART%s:%s" % (params, fmt_dt(dtstart, z=(tzid is None and not is_date)))]
    for t, _, _ in rules:
        body.append("RRULE:" + t)
    body += ["END:VEVENT", "END:VCALENDAR", ""]
    meta = {"dtstart": dtstart, "is_date": is_date, "tzid": tzid, "dtscale": dtscale,
            "rules": [t for t, _, _ in rules], "rule_objs": [r for _, r, _ in rules], "untils": [u for _, _, u in rules]}
    return "\n".join(body), meta


LIMIT_RULES = [
    "FREQ=DAILY;INTERVAL=4294967295", "FREQ=DAILY;INTERVAL=2147483648", "FREQ=SECONDLY;INTERVAL=4294967295",
    "FREQ=YEARLY;INTERVAL=4294967295", "FREQ=MONTHLY;INTERVAL=4294967295;BYMONTH=3", "FREQ=WEEKLY;INTERVAL=613566757;BYDAY=MO",
    "FREQ=DAILY;COUNT=2147483647", "FREQ=DAILY;COUNT=-5", "FREQ=DAILY;COUNT=4294967296", "FREQ=DAILY;INTERVAL=-1",
    "FREQ=YEARLY;BYMONTH=", "FREQ=YEARLY;BYMONTH=,,,", "FREQ=MONTHLY;BYDAY=", "FREQ=MONTHLY;BYDAY=99MO,-99SU,0TU",
    "FREQ=YEARLY;BYDAY=53SU,-53MO,54TU", "FREQ=YEARLY;BYSETPOS=366,-366;BYDAY=MO", "FREQ=YEARLY;BYYEARDAY=366,-366,367,-367",
    "FREQ=MONTHLY;BYMONTHDAY=31;BYMONTH=2", "FREQ=MONTHLY;BYMONTHDAY=32,-32,0", "FREQ=SECONDLY;BYMONTHDAY=31;BYMONTH=2",
    "FREQ=DAILY;INTERVAL=7;BYDAY=MO", "FREQ=DAILY;INTERVAL=2;BYMONTHDAY=31;BYMONTH=4", "FREQ=HOURLY;INTERVAL=24;BYHOUR=3",
    "FREQ=MINUTELY;INTERVAL=60;BYMINUTE=7", "FREQ=SECONDLY;INTERVAL=60;BYSECOND=7", "FREQ=SECONDLY;INTERVAL=86400;BYHOUR=5",
    "FREQ=MONTHLY;INTERVAL=2;BYMONTH=2,4,6", "FREQ=MONTHLY;INTERVAL=12;BYMONTH=3", "FREQ=YEARLY;BYWEEKNO=53;BYDAY=MO",
    "FREQ=YEARLY;BYWEEKNO=54,-54,0;BYDAY=MO", "FREQ=WEEKLY;BYDAY=1MO,-1FR", "FREQ=DAILY;BYDAY=5MO", "FREQ=HOURLY;BYDAY=2TU",
    "FREQ=YEARLY;BYEASTER=-400,400,0", "FREQ=YEARLY;BYEASTER=366;SHIFT=366", "FREQ=MONTHLY;BYMONTHDAY=31;SHIFT=-366",
    "FREQ=YEARLY;SHIFT=32767", "FREQ=YEARLY;SHIFT=-32768B", "FREQ=MONTHLY;BYDAY=1MO;SHIFT=16383B-", "FREQ=MONTHLY;SHIFT=99999999999",
    "FREQ=DAILY;BYHOUR=0,1,2,3,4,5,6,7,8,9,10,11,12,13,14,15,16,17,18,19,20,21,22,23,24;BYMINUTE=" + ",".join(map(str, range(60)))
    + ";BYSECOND=" + ",".join(map(str, range(61))),
    "FREQ=YEARLY;BYHOUR=" + ",".join(map(str, range(24))) + ";BYMINUTE=" + ",".join(map(str, range(60))) + ";BYSECOND=" + ",".join(map(str, range(60))),
    "FREQ=SECONDLY;BYSECOND=60", "FREQ=MINUTELY;BYSECOND=60,59", "FREQ=HOURLY;BYHOUR=24", "FREQ=BOGUS", "FREQ=", "INTERVAL=2",
    "FREQ=YEARLY;SCALE=HIJRI;BYMONTH=12;BYMONTHDAY=30", "FREQ=MONTHLY;SCALE=HIJRI.IVC;BYMONTHDAY=30,-30", "FREQ=HOURLY;SCALE=HIJRI",
    "FREQ=YEARLY;UNTIL=00000000", "FREQ=DAILY;UNTIL=99991231T235959Z", "FREQ=DAILY;UNTIL=19000101", "FREQ=DAILY;UNTIL=garbage",
]
# numbers beyond what the fields hold: they must not come out as 0 (a step of nothing) or wrap into something small
LIMIT_RULES += ["FREQ=%s;%s=%d%s" % (f, k, v, x) for f in ("YEARLY", "MONTHLY", "WEEKLY", "DAILY", "HOURLY", "MINUTELY", "SECONDLY")
                for k in ("INTERVAL", "COUNT") for v in (1 << 32, (1 << 32) + 1, 1 << 33, (1 << 63) - 1, 1 << 63, 1 << 64, 10 ** 20)
                for x in ("", ";BYDAY=MO")]
# rules on the table-based Hijri scales, whose tables end in 2022 (Diyanet) and 2077 (Umm al-Qura): streams that run
# into the end of the table, or start beyond it
LIMIT_RULES += ["FREQ=%s;SCALE=%s%s" % (f, sc, x) for f in ("YEARLY", "MONTHLY", "WEEKLY", "DAILY", "HOURLY")
                for sc in ("HIJRI", "HIJRI.DIYANET", "HIJRI.IA")
                for x in ("", ";BYDAY=MO,TH,SU", ";BYDAY=FR,SA,SU;BYSETPOS=1,-1", ";BYMONTHDAY=30,-1;BYSETPOS=-1", ";BYMONTH=12;BYDAY=WE,SU;BYSETPOS=2")]
LIMIT_DTSTARTS = ["20221101T090000Z", "20221220", "20770901T120000Z", "20771110", "16000101", "19010101", "19010101T000000Z", "20991231T235959Z", "20991231", "99991231T235959Z", "00010101",
                  "20000229T120000Z", "20000230", "20001301", "20000100", "19700101T000000Z", "21000228", "40950101", "65535"]


def mutate_bytes(rng, text):
    """byte level mutation of the RRULE lines of an event"""
    lines = text.split("\n")
    idx = [i for i, l in enumerate(lines) if l.startswith("RRULE") or l.startswith("DTSTART")]
    if not idx:
        return text
    i = rng.choice(idx)
    b = bytearray(lines[i].encode())
    for _ in range(rng.choice([1, 1, 2, 3, 8])):
        if not b:
            break
        k = rng.randrange(len(b))
        op = rng.random()
        if op < 0.3:
            b[k] = rng.choice(b"0123456789,;=-+:ABMOTUFRSDYZ\\ \t")
        elif op < 0.5:
            del b[k]
        elif op < 0.7:
            b[k:k] = bytes([rng.choice(b"0123456789,;=-+")]) * rng.choice([1, 1, 2, 12])
        elif op < 0.8:
            b[k:k] = b[max(0, k - 8):k]
        elif op < 0.9:
            b[k] = rng.randrange(1, 256)
        else:
            b[k:] = b[k:k + 3]
    lines[i] = bytes(b).decode("latin1")
    return "\n".join(lines)

#!/bin/sh
# run every quick check once, print one line each (plus anything alarming); exit 1 if any check did not exit 0
cd "$(dirname "$0")/.." || exit 2
rc=0
for p in C01 C02 C03 C04 C05 C06 C07 C08 C09 C10 C11 C12 C13 C14 C15 C16 C17 C18 C19 C20; do
	out=$(./check $p ${1:-quick} 2>&1); e=$?
	echo "$out" | grep -v "^KNOWN-FINDING" | grep "VIOLATION\|key=\|HARNESS" | cut -c1-300 | head -6
	echo "$out" | tail -1 | cut -c1-200
	[ $e -ne 0 ] && { echo "   ^^^ exit $e"; rc=1; }
done
exit $rc

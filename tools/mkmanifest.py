#!/usr/bin/python3
"""regenerates MANIFEST.json from the table below (single source of truth)"""
import json
import os
import subprocess

V = os.path.dirname(os.path.dirname(os.path.abspath(__file__)))
props = [json.loads(l) for l in open(os.path.join(V, "properties.jsonl"))]

# id -> (category, technique, level text, level note, design ref)
CHECKS = {}

def chk(pid, cat, tech, text, note, ref):
    CHECKS[pid] = (cat, tech, text, note, ref)

exec(open(os.path.join(V, "tools", "checks_table.py")).read())

def hook_commits():
    try:
        out = subprocess.run(["git", "-C", "/repo", "log", "--format=%H %s"], stdout=subprocess.PIPE).stdout.decode()
    except Exception:
        return []
    return [l.split()[0] for l in out.splitlines() if " hook:" in " " + l]

m = {
    "version": 1,
    "setup_cmd": "/usr/bin/python3 vlib/build.py >/dev/null",
    "hooks": {
        "guard": "ECHSE_VERIF",
        "enable": "checks compile a snapshot of /repo/src into a scratch cache with -DECHSE_VERIF (vlib/build.py); the repository's own build never defines it",
        "baseline_off_cmd": "cd /repo && make -j16 >/dev/null 2>&1 && make -j16 check",
        "source_commits": hook_commits(),
        "add_only": True,
    },
    "engines": [
        {"name": "h_lib", "path": "harness/h_lib.c", "serves_properties": ["C07", "C08", "C15", "C18", "C19", "C20"],
         "kind_free_text": "ASan+UBSan line server around pure libechse calls; Python reference oracles"},
        {"name": "h_strm", "path": "harness/h_strm.c", "serves_properties": ["C01", "C02", "C03", "C05", "C07", "C09", "C10", "C16", "C17"],
         "kind_free_text": "ASan+UBSan case server around the iCalendar pull parser and event streams with a CPU budget"},
        {"name": "h_echsd", "path": "harness/h_echsd.c", "serves_properties": ["C04", "C06", "C08", "C11", "C12", "C14"],
         "kind_free_text": "echsd.c compiled unmodified against real libev under a virtual clock with spawn/wait/file syscalls interposed; trace checkers"},
        {"name": "cli", "path": "vlib/cli.py", "serves_properties": ["C01", "C05", "C13", "C14"],
         "kind_free_text": "the shipped echse/echsq/echsx binaries (ASan build) driven as black boxes"},
    ],
    "checks": [],
    "not_applicable": [],
    "notes": "All checks: ./check <ID> quick|thorough; replay: ./check <ID> --replay FILE. Exit 0 held / 1 violation / 2 harness failure. known_findings.txt lists genuine defects (open:) and repaired ones (fixed:).",
}
for p in props:
    pid = p["id"]
    if pid in CHECKS:
        cat, tech, text, note, ref = CHECKS[pid]
        m["checks"].append({
            "property_id": pid,
            "quick_cmd": "./check %s quick" % pid,
            "thorough_cmd": "./check %s thorough" % pid,
            "evidence_file": "evidence/%s.json" % pid,
            "replay_cmd_template": "./check %s --replay {path}" % pid,
            "level_claimed": {"category": cat, "text": text, "design_ref": ref},
            "level_note": note,
            "technique": tech,
        })
    else:
        m["not_applicable"].append({"property_id": pid, "reason": "check not yet implemented (work in progress; DESIGN.md section 3 describes the planned monitor)"})
json.dump(m, open(os.path.join(V, "MANIFEST.json"), "w"), indent=1)
print("checks:", [c["property_id"] for c in m["checks"]])

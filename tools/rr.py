#!/usr/bin/python3
"""debug: tools/rr.py 'DTSTART(iso)' 'RRULE text' [N]  -> diff between echse and the oracle"""
import sys, datetime as D, re
sys.path.insert(0, '/verif')
from vlib import build, rfc5545
from vlib.common import *
from vlib.props import C01

def parse_rule(t):
    r = {}
    for kv in t.split(';'):
        k, v = kv.split('=')
        k = k.lower()
        if k == 'freq': r['freq'] = v
        elif k in ('interval', 'count'): r[k] = int(v)
        elif k == 'until':
            r['until'] = D.datetime.strptime(v, '%Y%m%dT%H%M%SZ') if 'T' in v else D.datetime.strptime(v, '%Y%m%d').date()
        elif k == 'byday':
            r['byday'] = [(int(m.group(1) or 0), rfc5545.WD.index(m.group(2))) for m in re.finditer(r'([+-]?\d+)?([A-Z]{2})', v)]
        else:
            r[k] = [int(x) for x in v.split(',')]
    return r

ds = sys.argv[1]
dt = D.datetime.strptime(ds, '%Y-%m-%dT%H:%M:%S') if 'T' in ds else D.datetime.strptime(ds, '%Y-%m-%d').date()
r = parse_rule(sys.argv[2])
N = int(sys.argv[3]) if len(sys.argv) > 3 else 40
root = build.ensure()
srv = CaseServer(build.exe(root, 'asan', 'h_strm'))
orc = C01.oracle(dt, r, N)
lines = srv.case('n=%d budget=8000' % orc[2], C01.ical(dt, r))
got, ended, mon = C01.parse_occ(lines)
E = orc[0]
print('oracle n=%d exhausted=%s npop=%d; echse n=%d ended=%s' % (len(E), orc[1], orc[2], len(got), ended))
sE, sG = set(E[:max(len(got), 1)]), set(got)
for x in sorted(sE | sG)[:N]:
    print(x, '' if x in sE and x in sG else ('MISSING' if x in sE else 'EXTRA'))
print(C01.judge(None, dt, r, N, got, ended, mon, 'pop', '', orc))

#!/usr/bin/python3
"""self-validation helper: apply a breaking change to a scratch copy of /repo/src and run checks on it.

  tools/mut.py --sed 's/a/b/' --file evrrul.c  C01 C16      (sed on one file)
  tools/mut.py --patch some.diff C04                         (git-style patch, -p1 relative to repo root)
prints the exit code of every check; exit 0 iff every listed check exited 1 (caught)."""
import argparse
import os
import shutil
import subprocess
import sys
import tempfile

V = os.path.dirname(os.path.dirname(os.path.abspath(__file__)))


def main():
    ap = argparse.ArgumentParser()
    ap.add_argument("--sed")
    ap.add_argument("--file")
    ap.add_argument("--patch")
    ap.add_argument("--tier", default="quick")
    ap.add_argument("--keep", action="store_true")
    ap.add_argument("props", nargs="+")
    a = ap.parse_args()
    d = tempfile.mkdtemp(prefix="echse-mut-")
    try:
        shutil.copytree("/repo/src", os.path.join(d, "src"),
                        ignore=shutil.ignore_patterns("*.o", "*.lo", "*.la", ".libs", ".deps", "echse", "echsd", "echsq", "echsx"))
        os.makedirs(os.path.join(d, "build-aux"))
        for f in os.listdir("/repo/build-aux"):
            p = os.path.join("/repo/build-aux", f)
            if os.path.isfile(p):
                os.symlink(p, os.path.join(d, "build-aux", f))
        for f in ("README.md",):
            if os.path.exists("/repo/" + f):
                os.symlink("/repo/" + f, os.path.join(d, f))
        if os.path.isdir("/repo/test"):
            os.symlink("/repo/test", os.path.join(d, "test"))
        if a.sed:
            before = open(os.path.join(d, "src", a.file)).read()
            subprocess.check_call(["sed", "-i", "-E", a.sed, os.path.join(d, "src", a.file)])
            if open(os.path.join(d, "src", a.file)).read() == before:
                print("MUTATION DID NOT CHANGE ANYTHING")
                return 3
        if a.patch:
            subprocess.check_call(["patch", "-p1", "-s", "-d", d, "-i", os.path.abspath(a.patch)])
        env = dict(os.environ)
        env["VERIF_REPO"] = d
        env["VERIF_EVID_DIR"] = os.path.join(d, "evidence")
        ok = True
        for p in a.props:
            r = subprocess.run([os.path.join(V, "check"), p, a.tier], env=env, stdout=subprocess.PIPE,
                               stderr=subprocess.STDOUT, cwd=V)
            out = r.stdout.decode(errors="replace")
            viol = [l for l in out.splitlines() if l.startswith(("VIOLATION", "  key=", "HARNESS", "KNOWN"))]
            print("%s exit=%d %s" % (p, r.returncode, "CAUGHT" if r.returncode == 1 else "MISSED"))
            for l in viol[:6]:
                print("   ", l[:220])
            if r.returncode != 1:
                ok = False
                print("    tail:", out[-300:].replace("\n", " | "))
        return 0 if ok else 1
    finally:
        if not a.keep:
            shutil.rmtree(d, ignore_errors=True)


if __name__ == "__main__":
    sys.exit(main())

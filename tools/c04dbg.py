#!/usr/bin/python3
"""debug: re-run a C04/C11/C12 witness script and print the events around a uid"""
import sys, json, binascii, re
sys.path.insert(0, '/verif')
from vlib import build, sched
w = json.load(open(sys.argv[1]))
uid = sys.argv[2] if len(sys.argv) > 2 else None
root = build.ensure()
print(w['key'], '|', w.get('detail'))
for l in w['input'].split('\n'):
    if l.startswith('req '):
        f = l.split(' ')
        txt = binascii.unhexlify(f[2]).decode('latin1')
        if uid is None or uid in txt:
            print('REQ by', f[1], ':', ' / '.join(x for x in txt.split('\n') if x.startswith(('UID', 'DTSTART', 'RRULE', 'RDATE', 'METHOD', 'STATUS', 'X-ECHS'))))
    elif not l.startswith('lives'):
        print('   ', l[:100])
ev, out, err, rc = sched.run_script(root, w['input'])
vt = {e[1]: sched.vtodo_uid(e[2]) for e in ev if e[0] == 'VTODO'}
for e in ev:
    if e[0] == 'SPAWN' and (uid is None or vt.get(e[1]) == uid):
        print('SPAWN', e[1], vt.get(e[1]), '%.4f' % e[3], e[4][2:])
    elif e[0] in ('EXIT', 'REAP', 'STALL', 'REQ'):
        print(e)
    elif e[0] == 'ARMED':
        print('ARMED %.3f' % e[1], {k: (v['cur'], v['nrun'], v['nsim'], v['resched']) for k, v in e[2].items() if uid is None or k == uid})
print(err[-800:])

#!/usr/bin/python3
"""debug: re-run a C12 witness and print the events of one uid"""
import sys, json, binascii, re
sys.path.insert(0, '/verif')
from vlib import build, sched
w = json.load(open(sys.argv[1]))
uid = sys.argv[2] if len(sys.argv) > 2 else None
root = build.ensure()
print(w.get('detail'))
for l in w['input'].split('\n'):
    if l.startswith('req '):
        f = l.split(' ')
        txt = binascii.unhexlify(f[2]).decode('latin1')
        if uid is None or uid in txt:
            print('REQ by', f[1], ':', ' / '.join(x for x in txt.split('\n') if x.startswith(('UID', 'DTSTART', 'RRULE', 'RDATE', 'METHOD', 'STATUS', 'X-ECHS'))))
    elif l.startswith('lives'):
        print(l[:150])
    else:
        print('   ', l[:100])
ev, out, err, rc = sched.run_script(root, w['input'], iter_log=False)
vt = {e[1]: sched.vtodo_uid(e[2]) for e in ev if e[0] == 'VTODO'}
pid_idx = {e[2]: e[1] for e in ev if e[0] == 'SPAWN'}
n = 0
for e in ev:
    if e[0] == 'SPAWN' and (uid is None or vt.get(e[1]) == uid):
        print('SPAWN idx', e[1], vt.get(e[1]), '%.4f' % e[3], e[4][2:]); n += 1
    elif e[0] == 'EXIT' and (uid is None or vt.get(e[1]) == uid):
        print('EXIT idx', e[1], '%.4f' % e[3]); n += 1
    elif e[0] == 'REAP' and (uid is None or vt.get(pid_idx.get(e[1])) == uid):
        print('REAP idx', pid_idx.get(e[1]), '%.4f' % e[2]); n += 1
    elif e[0] in ('STALL', 'REQ'):
        print(e)
    elif e[0] == 'ARMED':
        print('ARMED %.3f' % e[1], {k: (v['nrun'], v['nsim'], v['maxsim']) for k, v in e[2].items() if uid is None or k == uid})
    if n > int(sys.argv[3]) if len(sys.argv) > 3 else 0:
        break
print(err[-500:])

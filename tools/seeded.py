#!/usr/bin/python3
"""run checks against the seeded breaking changes kept under /verif/seeded/<name>/

  tools/seeded.py [--tier quick] [--checks C04,C12 | --all] [name ...]

Each change is applied to /repo's working tree (git apply), the chosen checks are run (they rebuild from
the working tree), and the tree is restored (git checkout -- .) whatever happens.  By default the check
of the property the change was written against is run.  Results go to seeded/<name>/result.json and a
table is printed; nothing here is evidence, it validates the monitors."""
import argparse
import json
import os
import re
import subprocess
import sys
import time

VERIF = os.path.dirname(os.path.dirname(os.path.abspath(__file__)))
REPO = os.environ.get("VERIF_REPO", "/repo")
ALL = ["C%02d" % i for i in range(1, 21)]


def sh(cmd, **kw):
    return subprocess.run(cmd, stdout=subprocess.PIPE, stderr=subprocess.STDOUT, text=True, **kw)


def main():
    ap = argparse.ArgumentParser()
    ap.add_argument("--tier", default="quick")
    ap.add_argument("--checks")
    ap.add_argument("--all", action="store_true")
    ap.add_argument("--related", action="store_true", help="all checks of the library group or of the daemon/executor group, by the files touched")
    ap.add_argument("names", nargs="*")
    a = ap.parse_args()
    sd = os.path.join(VERIF, "seeded")
    names = a.names or sorted(n for n in os.listdir(sd) if os.path.exists(os.path.join(sd, n, "patch.diff")))
    dirty = sh(["git", "-C", REPO, "status", "--porcelain", "--untracked-files=no"]).stdout.strip()
    if dirty:
        print("refusing: %s has uncommitted changes to tracked files" % REPO)
        return 2
    rows = []
    for n in names:
        d = os.path.join(sd, n)
        meta = json.load(open(os.path.join(d, "meta.json")))
        checks = a.checks.split(",") if a.checks else (ALL if a.all else [meta["property"]])
        if a.related:
            files = " ".join(meta.get("files", []))
            daemon = [c for c in ("C04", "C06", "C11", "C12", "C13", "C14")]
            lib = [c for c in ALL if c not in daemon]
            checks = daemon if ("echsd.c" in files or "echsx.c" in files) else lib + (["C14"] if "instant.c" in files or "dt-strpf.c" in files else [])
            if meta["property"] not in checks:
                checks = [meta["property"]] + checks
        res = {"name": n, "property": meta["property"], "tier": a.tier, "checks": {}}
        ap_ = sh(["git", "-C", REPO, "apply", os.path.join(d, "patch.diff")])
        if ap_.returncode:
            print("%s: patch does not apply: %s" % (n, ap_.stdout[-200:]))
            rows.append((n, meta["property"], "PATCH-DOES-NOT-APPLY", ""))
            continue
        try:
            env = dict(os.environ, VERIF_EVID_DIR=os.path.join("/tmp", "seeded-evid-%d" % os.getpid()))
            os.makedirs(env["VERIF_EVID_DIR"], exist_ok=True)
            for c in checks:
                t0 = time.time()
                r = sh([os.path.join(VERIF, "check"), c, a.tier], env=env, cwd=VERIF)
                keys = re.findall(r"^\s+key=(\S+)", r.stdout, re.M)
                res["checks"][c] = {"exit": r.returncode, "keys": keys[:6], "wall": round(time.time() - t0, 1)}
                verdict = "CAUGHT" if r.returncode == 1 else ("missed" if r.returncode == 0 else "harness-exit-%d" % r.returncode)
                rows.append((n, c, verdict, ",".join(keys[:2])[:110]))
                print("%-28s %-4s %-8s %s" % (n, c, verdict, ",".join(keys[:2])[:110]), flush=True)
        finally:
            sh(["git", "-C", REPO, "checkout", "--", "."])
            sh(["rm", "-rf", os.path.join("/tmp", "seeded-evid-%d" % os.getpid())])
        json.dump(res, open(os.path.join(d, "result-related.json" if a.related else "result.json"), "w"), indent=1)
    still = sh(["git", "-C", REPO, "status", "--porcelain", "--untracked-files=no"]).stdout.strip()
    if still:
        print("WARNING: %s not clean after the run: %s" % (REPO, still))
    return 0


if __name__ == "__main__":
    sys.exit(main())

#!/bin/bash
# build /repo, run its test suite, commit all tracked changes with the message in $1 only if all 84 tests pass
set -e
cd /repo
make -j16 2>&1 | grep -E " error " && { echo BUILD-ERROR; exit 1; }
out=$(make -j16 check 2>&1 | grep -E "^# (PASS|FAIL)" | tr "\n" " ")
echo "$out"
if [[ "$out" != *"PASS:  84"* || "$out" != *"FAIL:  0"* ]]; then echo "TESTS FAIL - not committed"; make -j16 check 2>&1 | grep "^FAIL"; exit 1; fi
git commit -qaF "$1"
git log --oneline | head -1

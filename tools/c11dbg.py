#!/usr/bin/python3
"""debug: trace one uid through a C11 witness"""
import sys, json, binascii, re
sys.path.insert(0, '/verif')
from vlib import build, sched
w = json.load(open(sys.argv[1]))
uid = sys.argv[2]
root = build.ensure()
ev, out, err, rc = sched.run_script(root, w['input'], iter_log=False)
reqs = []
for l in w['input'].split('\n'):
    if l.startswith('req '):
        f = l.split(' ')
        reqs.append((f[1], binascii.unhexlify(f[2]).decode('latin1')))
    elif l.startswith('get '):
        reqs.append((l.split(' ')[1], l))
vt = {e[1]: e[2] for e in ev if e[0] == 'VTODO'}
last = None
for e in ev:
    if e[0] == 'REQ':
        peer, txt = reqs[e[1]]
        if uid in txt:
            m = re.search(r"BEGIN:VEVENT\nUID:%s\n(.*?)END:VEVENT" % re.escape(uid), txt, re.S)
            print('REQ', e[1], 'by', peer, '%.1f' % e[3], 'CANCEL' if 'METHOD:CANCEL' in txt else '', (m.group(1).replace('\n', ' / ') if m else txt[:80]))
    elif e[0] == 'RPL' and uid in e[2]:
        m = re.search(r"UID:%s\n.*?(REQUEST-STATUS:[^\n]*)" % re.escape(uid), e[2], re.S)
        print('   RPL', e[1], m.group(1) if m else e[2][:100].replace('\n', ' / '))
    elif e[0] == 'SPAWN' and sched.vtodo_uid(vt.get(e[1], '')) == uid:
        print('SPAWN %.3f' % e[3], sched.vtodo_field(vt[e[1]], 'SUMMARY'), 'setuid', sched.vtodo_field(vt[e[1]], 'X-ECHS-SETUID'))
    elif e[0] == 'ARMED':
        cur = e[2].get(uid)
        s = None if cur is None else (cur['owner'], cur['cur'], cur['nrun'], cur['nsim'], cur['resched'])
        if s != last:
            print('TABLE %.1f' % e[1], s)
            last = s
print(err[-500:])

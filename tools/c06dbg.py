#!/usr/bin/python3
"""debug: re-run a C06 witness, show requests / publishes for one user and the spool afterwards"""
import sys, json, binascii, re, os, glob, tempfile, shutil
sys.path.insert(0, '/verif')
from vlib import build, sched
w = json.load(open(sys.argv[1]))
user = sys.argv[2] if len(sys.argv) > 2 else None
root = build.ensure()
print(w['key'] if 'key' in w else '', '|', w.get('detail'), '|', w.get('injection'))
spool = tempfile.mkdtemp(prefix='c06dbg-')
text = re.sub(r"^spool \S+", "spool " + spool, w['input'])
ev, out, err, rc = sched.run_script(root, text, iter_log=False)
reqs = []
for l in text.split('\n'):
    if l.startswith('req '):
        f = l.split(' ')
        reqs.append((f[1], binascii.unhexlify(f[2]).decode('latin1')))
    elif l.startswith('get '):
        reqs.append((l.split(' ')[1], l))
for e in ev:
    if e[0] == 'REQ':
        peer, txt = reqs[e[1]]
        if user is None or peer == user:
            print('REQ', e[1], 'by', peer, '%.1f' % e[3], ('CANCEL ' if 'METHOD:CANCEL' in txt else '') + ' '.join(re.findall(r"UID:(\S+)", txt)) + ' ' + ' '.join(re.findall(r"SUMMARY:job (v\d+)", txt)) if txt.startswith('BEGIN') else txt)
    elif e[0] == 'PUBLISHED' and (user is None or user in e[1]):
        print('   PUBLISHED', e[1], e[2])
    elif e[0] == 'FS' and ('INJECTED' in e[4] or 'CRASH' in e[4]):
        print('   FS', e[1:])
    elif e[0] in ('SHUTDOWN', 'DOWN'):
        print(e)
print('rc', rc, err[-300:])
for fn in sorted(glob.glob(spool + '/*') + glob.glob(spool + '/.e*')):
    if user is None or user in fn:
        t = open(fn).read()
        print('FILE', os.path.basename(fn), len(t), 'bytes:', ' '.join(re.findall(r"UID:(\S+)", t)), ' '.join(re.findall(r"SUMMARY:job (v\d+)", t)), re.findall(r"^X-ECHS-MAX-SIMUL.*$", t, re.M))
shutil.rmtree(spool)

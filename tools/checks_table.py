chk("C19", "exploration", "runtime monitoring: reference-model (Python set) oracle over an ASan/UBSan harness, exhaustive small core + random",
    "Every insertion sequence of length <=3 over the full range of the small containers and a stratified core of the large ones is executed on the real code under ASan+UBSan and compared with a Python set (has_bits, membership, documented iteration idiom incl. termination); random larger sets cross the native->bitset switch. Held on what was executed; not a proof for longer sequences.",
    "trusted: Python set semantics, h_lib.c glue, gcc sanitizers; iteration order is not judged", "DESIGN.md section 3 C19")

chk("C20", "exploration", "runtime monitoring: permutation/order/stability oracle over ASan harness, all lengths 0..300 + merge-threshold lengths x 8 shapes",
    "echs_instant_sort/echs_event_sort are run under ASan+UBSan on arrays of every length 0..300, lengths around every block-merge threshold up to 4096 (thorough: up to 600000 to reach the two-buffer path) in eight adversarial shapes; the output must be a permutation, non-decreasing in the documented order and, for events (serial in oid), stable.",
    "trusted: Python sorted/compare of the 64-bit keys, h_lib.c glue; stability of instants is unobservable (equal elements are identical)", "DESIGN.md section 3 C20")
chk("C18", "exploration", "runtime monitoring: print->parse identity and spelled-form reference oracle over ASan harness",
    "dt_strf/dt_strf_ical/idiff_strf output is fed back to dt_strp/idiff_strp (identity oracle) for a dense sample of days x times and durations, and hand-spelled equivalent forms (ISO/basic, Z, ms, +sign, weeks/days/hours/minutes/seconds combinations, values past the 32-bit limits) are compared with values computed in Python; exact-size heap copies let ASan see parser overreads.",
    "trusted: Python integer arithmetic for the expected values; sub-second durations are a listed known finding", "DESIGN.md section 3 C18")

/* h_lib -- line server around pure libechse calls (C07 C08 C15 C18 C19 C20).
 * One command per input line, exactly one output line per command.
 * Instants travel as the hex of the 64-bit union. */
#if defined HAVE_CONFIG_H
# include "config.h"
#endif
#include <stdio.h>
#include <stdlib.h>
#include <string.h>
#include <stdint.h>
#include <inttypes.h>
#include <signal.h>
#include <unistd.h>
#include <sys/time.h>
#include "instant.h"
#include "range.h"
#include "event.h"
#include "dt-strpf.h"
#include "tzob.h"
#include "scale.h"
#include "bitint.h"
#include "hash.h"

static char *line;
static size_t llen;
static const char *curcmd = "";

static void
on_vtalrm(int sig)
{
	static const char msg[] = "\nTIMEOUT\n";
	(void)sig;
	if (write(1, msg, sizeof(msg) - 1)) {}
	_exit(3);
}

static void
arm(unsigned int secs)
{
	struct itimerval it = {{0, 0}, {secs, 0}};
	setitimer(ITIMER_VIRTUAL, &it, NULL);
}

static echs_instant_t
rdi(char **p)
{
	echs_instant_t i;
	i.u = strtoull(*p, p, 16);
	return i;
}

static char*
next_tok(char **p)
{
	char *s = *p;
	while (*s == ' ') s++;
	char *e = s;
	while (*e && *e != ' ' && *e != '\n') e++;
	if (*e) *e++ = '\0';
	*p = e;
	return s;
}

#define ITER_CAP 2000

static void
do_bi(char *p)
{
/* bi TYPE n v1..vn */
	char *ty = next_tok(&p);
	long n = strtol(p, &p, 10);
	int *v = malloc(sizeof(int) * (n + 1));
	for (long k = 0; k < n; k++) {
		v[k] = (int)strtol(p, &p, 10);
	}
	int has = -1;
	size_t cnt = 0;
	int capped = 0;
	static int out[ITER_CAP + 8];

#define ITERATE(NEXT, SET)						\
	do {								\
		bitint_iter_t it = 0U;					\
		int x;							\
		for (; (x = (int)NEXT(&it, SET), it);) {		\
			if (cnt >= ITER_CAP) { capped = 1; break; }	\
			out[cnt++] = x;					\
		}							\
	} while (0)

	if (!strcmp(ty, "bui31")) {
		bituint31_t b = 0U;
		for (long k = 0; k < n; k++) b = ass_bui31(b, (unsigned int)v[k]);
		has = bui31_has_bits_p(b);
		ITERATE(bui31_next, b);
		printf("has=%d mem=", has);
		for (unsigned int x = 0; x <= 30U; x++) putchar('0' + bui31_has_bit_p(b, x));
	} else if (!strcmp(ty, "bui63")) {
		bituint63_t b = 0U;
		for (long k = 0; k < n; k++) b = ass_bui63(b, (unsigned int)v[k]);
		has = bui63_has_bits_p(b);
		ITERATE(bui63_next, b);
		printf("has=%d mem=-", has);
	} else if (!strcmp(ty, "bi31")) {
		bitint31_t b = {0U, 0};
		for (long k = 0; k < n; k++) b = ass_bi31(b, v[k]);
		has = bi31_has_bits_p(b);
		ITERATE(bi31_next, b);
		printf("has=%d mem=", has);
		for (int x = -31; x <= 31; x++) putchar('0' + bi31_has_bit_p(b, x));
	} else if (!strcmp(ty, "bi63")) {
		bitint63_t b = {0U, 0};
		for (long k = 0; k < n; k++) b = ass_bi63(b, v[k]);
		has = bi63_has_bits_p(b);
		ITERATE(bi63_next, b);
		printf("has=%d mem=-", has);
	} else if (!strcmp(ty, "bi383")) {
		bitint383_t b;
		memset(&b, 0, sizeof(b));
		for (long k = 0; k < n; k++) ass_bi383(&b, v[k]);
		has = bi383_has_bits_p(&b);
		ITERATE(bi383_next, &b);
		printf("has=%d max0=%d mem=-", has, bi383_max0(&b));
	} else if (!strcmp(ty, "bi447")) {
		bitint447_t b;
		memset(&b, 0, sizeof(b));
		for (long k = 0; k < n; k++) ass_bi447(&b, v[k]);
		has = bi447_has_bits_p(&b);
		ITERATE(bi447_next, &b);
		printf("has=%d mem=-", has);
	} else {
		printf("ERR type");
	}
	printf(" capped=%d it=", capped);
	for (size_t k = 0; k < cnt; k++) printf("%s%d", k ? "," : "", out[k]);
	putchar('\n');
	free(v);
}

int
main(void)
{
	signal(SIGVTALRM, on_vtalrm);
	setvbuf(stdout, NULL, _IOFBF, 1 << 16);
	ssize_t nrd;
	while ((nrd = getline(&line, &llen, stdin)) > 0) {
		if (line[nrd - 1] == '\n') line[--nrd] = '\0';
		char *p = line;
		char *cmd = next_tok(&p);
		curcmd = cmd;
		arm(30);
		if (!strcmp(cmd, "flush")) {
			puts("ok");
			fflush(stdout);
		} else if (!strcmp(cmd, "add")) {
			echs_instant_t i = rdi(&p);
			echs_idiff_t d = {strtoll(p, &p, 10)};
			printf("%016" PRIx64 "\n", echs_instant_add(i, d).u);
		} else if (!strcmp(cmd, "diff")) {
			echs_instant_t a = rdi(&p);
			echs_instant_t b = rdi(&p);
			printf("%" PRId64 "\n", echs_instant_diff(a, b).d);
		} else if (!strcmp(cmd, "fix")) {
			echs_instant_t a = rdi(&p);
			printf("%016" PRIx64 "\n", echs_instant_fixup(a).u);
		} else if (!strcmp(cmd, "cmp")) {
			echs_instant_t a = rdi(&p);
			echs_instant_t b = rdi(&p);
			printf("%d%d%d\n", echs_instant_lt_p(a, b), echs_instant_le_p(a, b),
			       echs_instant_eq_p(a, b));
		} else if (!strcmp(cmd, "2ep")) {
			echs_instant_t a = rdi(&p);
			printf("%lld\n", (long long)echs_instant_to_epoch(a));
		} else if (!strcmp(cmd, "ep2")) {
			long long t = strtoll(p, &p, 10);
			printf("%016" PRIx64 "\n", epoch_to_echs_instant((time_t)t).u);
		} else if (!strcmp(cmd, "utc") || !strcmp(cmd, "loc")) {
			echs_instant_t a = rdi(&p);
			char *zn = next_tok(&p);
			echs_tzob_t z = echs_tzob(zn, strlen(zn));
			echs_instant_t r = *cmd == 'u'
				? echs_instant_utc(a, z) : echs_instant_loc(a, z);
			printf("%016" PRIx64 " %lx\n", r.u, (unsigned long)z);
		} else if (!strcmp(cmd, "offs")) {
			echs_instant_t a = rdi(&p);
			char *zn = next_tok(&p);
			int x = (int)strtol(p, &p, 10);
			echs_tzob_t z = echs_tzob(zn, strlen(zn));
			printf("%d\n", echs_tzob_offs(z, a, x));
		} else if (!strcmp(cmd, "tzclear")) {
			clear_tzobs();
			puts("ok");
		} else if (!strcmp(cmd, "resc")) {
			/* resc I fromscale toscale */
			echs_instant_t a = rdi(&p);
			int fs = (int)strtol(p, &p, 10);
			int ts = (int)strtol(p, &p, 10);
			a = echs_instant_attach_scale(a, (echs_scale_t)fs);
			echs_instant_t r = echs_instant_rescale(a, (echs_scale_t)ts);
			printf("%016" PRIx64 " %d\n", echs_instant_detach_scale(r).u,
			       (int)echs_instant_scale(r));
		} else if (!strcmp(cmd, "ndim")) {
			int s = (int)strtol(p, &p, 10);
			unsigned y = (unsigned)strtoul(p, &p, 10);
			unsigned m = (unsigned)strtoul(p, &p, 10);
			printf("%u\n", echs_scale_ndim((echs_scale_t)s, y, m));
		} else if (!strcmp(cmd, "wday")) {
			int s = (int)strtol(p, &p, 10);
			unsigned y = (unsigned)strtoul(p, &p, 10);
			unsigned m = (unsigned)strtoul(p, &p, 10);
			unsigned d = (unsigned)strtoul(p, &p, 10);
			printf("%u\n", (unsigned)echs_scale_wday((echs_scale_t)s, y, m, d));
		} else if (!strcmp(cmd, "dtp")) {
			/* rest of line is the string */
			while (*p == ' ') p++;
			char *on = NULL;
			size_t n = strlen(p);
			/* hand over an exact-size copy so that overreads are seen */
			char *cp = malloc(n + 1);
			memcpy(cp, p, n + 1);
			echs_instant_t r = dt_strp(cp, &on, n);
			printf("%016" PRIx64 " %ld\n", r.u, on ? (long)(on - cp) : -1L);
			free(cp);
		} else if (!strcmp(cmd, "dtp0")) {
			/* len == 0 entry (UNTIL=, --from): NUL terminated string */
			while (*p == ' ') p++;
			char *on = NULL;
			size_t n = strlen(p);
			char *cp = malloc(n + 1);
			memcpy(cp, p, n + 1);
			echs_instant_t r = dt_strp(cp, &on, 0U);
			printf("%016" PRIx64 " %ld\n", r.u, on ? (long)(on - cp) : -1L);
			free(cp);
		} else if (!strcmp(cmd, "dtf") || !strcmp(cmd, "dtfi")) {
			echs_instant_t a = rdi(&p);
			char buf[64];
			size_t n = cmd[3] == 'i'
				? dt_strf_ical(buf, sizeof(buf), a)
				: dt_strf(buf, sizeof(buf), a);
			printf("%zu %.*s\n", n, (int)(n < sizeof(buf) ? n : sizeof(buf)), buf);
		} else if (!strcmp(cmd, "idp")) {
			while (*p == ' ') p++;
			char *on = NULL;
			size_t n = strlen(p);
			char *cp = malloc(n + 1);
			memcpy(cp, p, n + 1);
			echs_idiff_t r = idiff_strp(cp, &on, n);
			printf("%" PRId64 " %ld\n", r.d, on ? (long)(on - cp) : -1L);
			free(cp);
		} else if (!strcmp(cmd, "idf")) {
			echs_idiff_t d = {strtoll(p, &p, 10)};
			char buf[96];
			size_t n = idiff_strf(buf, sizeof(buf), d);
			printf("%zu %.*s\n", n, (int)(n < sizeof(buf) ? n : sizeof(buf)), buf);
		} else if (!strcmp(cmd, "rgp")) {
			while (*p == ' ') p++;
			char *on = NULL;
			size_t n = strlen(p);
			char *cp = malloc(n + 1);
			memcpy(cp, p, n + 1);
			echs_range_t r = range_strp(cp, &on, n);
			printf("%016" PRIx64 " %016" PRIx64 " %ld\n", r.beg.u, r.end.u,
			       on ? (long)(on - cp) : -1L);
			free(cp);
		} else if (!strcmp(cmd, "rgf")) {
			echs_range_t r;
			r.beg = rdi(&p);
			r.end = rdi(&p);
			char buf[128];
			size_t n = range_strf(buf, sizeof(buf), r);
			printf("%zu %.*s\n", n, (int)(n < sizeof(buf) ? n : sizeof(buf)), buf);
		} else if (!strcmp(cmd, "sorti")) {
			/* sorti n I1 .. In */
			size_t n = strtoul(p, &p, 10);
			echs_instant_t *a = malloc(sizeof(*a) * (n ? n : 1));
			for (size_t k = 0; k < n; k++) a[k] = rdi(&p);
			echs_instant_sort(a, n);
			for (size_t k = 0; k < n; k++) printf("%s%" PRIx64, k ? " " : "", a[k].u);
			putchar('\n');
			free(a);
		} else if (!strcmp(cmd, "sorte")) {
			/* sorte n I1 .. In ; oid = serial */
			size_t n = strtoul(p, &p, 10);
			echs_event_t *a = calloc(n ? n : 1, sizeof(*a));
			for (size_t k = 0; k < n; k++) {
				a[k].from = rdi(&p);
				a[k].oid = (echs_oid_t)(k + 1);
				a[k].dur.d = (int64_t)k * 7;
			}
			echs_event_sort(a, n);
			for (size_t k = 0; k < n; k++) {
				printf("%s%" PRIx64 ":%lu:%" PRId64, k ? " " : "", a[k].from.u,
				       (unsigned long)a[k].oid, a[k].dur.d);
			}
			putchar('\n');
			free(a);
		} else if (!strcmp(cmd, "bi")) {
			do_bi(p);
		} else if (!strcmp(cmd, "hash")) {
			/* hash of the rest of the line (the daemon's task key) */
			printf("%08x\n", (unsigned)hash(p, strlen(p)));
		} else {
			printf("ERR unknown command %s\n", cmd);
		}
	}
	fflush(stdout);
	return 0;
}

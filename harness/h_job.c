/* a job for echsx: follows a little script given as arguments
 *   o:N  write N bytes to stdout (lower-case stream), e:N to stderr (upper-case stream)
 *   s:MS sleep, x:N exit with N, k:SIG kill ourselves, i copy stdin to stdout verbatim,
 *   w:F  report cwd, umask and uid into file F as "<cwd> <umask> <uid>\n"
 *   f:F  fork a helper that holds none of our descriptors and appends one octet to file F every 50 ms for 10 s: a part
 *        of the job that outlives the process echsx started
 *   z:MS stop ourselves (SIGSTOP); a helper that shares none of our descriptors continues us after MS milliseconds
 * the two streams are deterministic, so a reader can tell loss, duplication and reordering */
#include <fcntl.h>
#include <signal.h>
#include <stdio.h>
#include <stdlib.h>
#include <string.h>
#include <sys/stat.h>
#include <time.h>
#include <unistd.h>

static unsigned long so, se;

static void
emit(int fd, unsigned long *ctr, char base, size_t n)
{
	char buf[8192];
	while (n) {
		size_t c = n < sizeof(buf) ? n : sizeof(buf);
		for (size_t i = 0; i < c; i++, (*ctr)++) {
			buf[i] = (char)(base + (*ctr * 7UL + (*ctr >> 8)) % 26UL);
		}
		for (size_t o = 0; o < c;) {
			ssize_t w = write(fd, buf + o, c - o);
			if (w <= 0) return;
			o += w;
		}
		n -= c;
	}
}

int
main(int argc, char *argv[])
{
	for (int i = 1; i < argc; i++) {
		const char *a = argv[i];
		long v = a[1] == ':' ? strtol(a + 2, NULL, 10) : 0;
		switch (a[0]) {
		case 'o': emit(1, &so, 'a', (size_t)v); break;
		case 'e': emit(2, &se, 'A', (size_t)v); break;
		case 's': {
			struct timespec ts = {v / 1000, (v % 1000) * 1000000L};
			while (nanosleep(&ts, &ts) < 0);
			break;
		}
		case 'x': return (int)v;
		case 'k': {
			sigset_t none;
			sigemptyset(&none);
			sigprocmask(SIG_SETMASK, &none, NULL);
			signal((int)v, SIG_DFL);
			kill(getpid(), (int)v);
			pause();
			break;
		}
		case 'f': {
			pid_t h = fork();
			if (h == 0) {
				struct timespec ts = {0, 50000000L};
				for (int fd = 0; fd < 64; fd++) close(fd);
				for (int k = 0; k < 200; k++) {
					int fd = open(a + 2, O_WRONLY | O_APPEND | O_CREAT, 0600);
					if (fd >= 0) {
						(void)!write(fd, "x", 1);
						close(fd);
					}
					nanosleep(&ts, NULL);
				}
				_exit(0);
			}
			break;
		}
		case 'z': {
			pid_t me = getpid();
			pid_t h = fork();
			if (h == 0) {
				struct timespec ts = {v / 1000, (v % 1000) * 1000000L};
				for (int fd = 0; fd < 64; fd++) close(fd);
				while (nanosleep(&ts, &ts) < 0);
				kill(me, SIGCONT);
				_exit(0);
			} else if (h > 0) {
				raise(SIGSTOP);
			}
			break;
		}
		case 'i': {
			char buf[4096];
			ssize_t n;
			while ((n = read(0, buf, sizeof(buf))) > 0) (void)!write(1, buf, n);
			break;
		}
		case 'w': {
			char cwd[4096], out[4300];
			mode_t m = umask(0);
			umask(m);
			if (!getcwd(cwd, sizeof(cwd))) strcpy(cwd, "?");
			int n = snprintf(out, sizeof(out), "%s %04o %u\n", cwd, (unsigned)m, (unsigned)getuid());
			FILE *f = fopen(a + 2, "a");
			if (f) {
				fwrite(out, 1, n, f);
				fclose(f);
			}
			break;
		}
		default: break;
		}
	}
	return 0;
}

/* stand-in for /usr/sbin/sendmail: record the arguments and stdin into $HX_MAILOUT */
#include <fcntl.h>
#include <stdio.h>
#include <stdlib.h>
#include <string.h>
#include <unistd.h>

int
main(int argc, char *argv[])
{
	const char *fn = getenv("HX_MAILOUT");
	char buf[65536];
	ssize_t n;
	int fd;

	if (fn == NULL || (fd = open(fn, O_WRONLY | O_CREAT | O_APPEND, 0600)) < 0) {
		return 3;
	}
	for (int i = 0; i < argc; i++) {
		(void)!write(fd, "ARG ", 4);
		(void)!write(fd, argv[i], strlen(argv[i]));
		(void)!write(fd, "\n", 1);
	}
	(void)!write(fd, "BODY\n", 5);
	while ((n = read(0, buf, sizeof(buf))) > 0) {
		for (ssize_t o = 0, w; o < n && (w = write(fd, buf + o, n - o)) > 0; o += w);
	}
	close(fd);
	return 0;
}

/* link-time shims for the real echsx: the mailer is replaced by a recorder, alarm() is logged and
 * (optionally) scaled, temporary files are logged.  Everything else is the unmodified program. */
#define _GNU_SOURCE
#include <dlfcn.h>
#include <errno.h>
#include <fcntl.h>
#include <spawn.h>
#include <stdarg.h>
#include <stdio.h>
#include <stdlib.h>
#include <string.h>
#include <sys/time.h>
#include <time.h>
#include <unistd.h>

extern char **environ;

static void
xlog(const char *fmt, ...)
{
	const char *fn = getenv("HX_LOG");
	char buf[4096];
	va_list ap;
	int n, fd;

	if (fn == NULL) {
		return;
	}
	va_start(ap, fmt);
	n = vsnprintf(buf, sizeof(buf), fmt, ap);
	va_end(ap);
	if (n < 0) {
		return;
	}
	if (n >= (int)sizeof(buf)) {
		n = sizeof(buf) - 1;
	}
	if ((fd = open(fn, O_WRONLY | O_APPEND | O_CREAT, 0600)) >= 0) {
		(void)!write(fd, buf, n);
		close(fd);
	}
}

static void
xlog_arg(const char *a)
{
/* [arg] with control characters, '%' and ']' as %xx */
	char buf[8192];
	size_t n = 0;

	buf[n++] = ' ';
	buf[n++] = '[';
	for (; *a && n < sizeof(buf) - 8; a++) {
		unsigned char c = (unsigned char)*a;
		if (c < 0x20 || c == '%' || c == ']' || c >= 0x7f) {
			n += sprintf(buf + n, "%%%02x", c);
		} else {
			buf[n++] = (char)c;
		}
	}
	buf[n++] = ']';
	buf[n] = '\0';
	xlog("%s", buf);
}

int
posix_spawn(pid_t *pid, const char *path, const posix_spawn_file_actions_t *fa,
	    const posix_spawnattr_t *attr, char *const argv[], char *const envp[])
{
	static int (*real)(pid_t*, const char*, const posix_spawn_file_actions_t*,
			   const posix_spawnattr_t*, char *const[], char *const[]);
	int rc;

	if (real == NULL) {
		real = dlsym(RTLD_NEXT, "posix_spawn");
	}
	if (!strcmp(path, "/usr/sbin/sendmail")) {
		const char *r = getenv("HX_SENDMAIL");
		xlog("MAILER");
		for (char *const *a = argv; a && *a; a++) {
			xlog_arg(*a);
		}
		xlog("\n");
		if (r != NULL) {
			/* the recorder finds its output file in the environment */
			path = r;
			envp = environ;
		}
	} else {
		xlog("SPAWN %s", path);
		for (char *const *a = argv; a && *a; a++) {
			xlog_arg(*a);
		}
		xlog("\n");
	}
	rc = real(pid, path, fa, attr, argv, envp);
	/* posix_spawn returns an error number, the program under test compares with < 0 */
	return rc;
}

unsigned int
alarm(unsigned int n)
{
	const char *sc = getenv("HX_TIMESCALE");
	double scale = sc ? strtod(sc, NULL) : 1.0;
	struct itimerval it = {{0, 0}, {0, 0}}, old;
	double t = (double)n * scale;

	xlog("ALARM %u\n", n);
	if (n && t < 0.001) {
		t = 0.001;
	}
	it.it_value.tv_sec = (time_t)t;
	it.it_value.tv_usec = (suseconds_t)((t - (double)(time_t)t) * 1e6);
	if (setitimer(ITIMER_REAL, &it, &old) < 0) {
		return 0;
	}
	return (unsigned int)old.it_value.tv_sec;
}

int
mkstemp(char *tmpl)
{
	static int (*real)(char*);
	int fd;

	if (real == NULL) {
		real = dlsym(RTLD_NEXT, "mkstemp");
	}
	fd = real(tmpl);
	xlog("MKSTEMP %s %d\n", tmpl, fd);
	return fd;
}


/* the wall clock: with $HX_CLOCK_AT=<epoch> the program starts at that second of the calendar and time passes at
 * its usual pace from there (CLOCK_REALTIME and time() only, the monotonic clock is left alone) */
static long
clock_shift(void)
{
	static int init;
	static long shift;

	if (!init) {
		static int (*real)(clockid_t, struct timespec*);
		const char *at = getenv("HX_CLOCK_AT");
		struct timespec now;

		init = 1;
		if (at != NULL && *at) {
			real = dlsym(RTLD_NEXT, "clock_gettime");
			if (real != NULL && real(CLOCK_REALTIME, &now) == 0) {
				shift = strtol(at, NULL, 10) - (long)now.tv_sec;
				xlog("CLOCK %s shift %ld\n", at, shift);
			}
		}
	}
	return shift;
}

int
clock_gettime(clockid_t id, struct timespec *ts)
{
	static int (*real)(clockid_t, struct timespec*);
	int rc;

	if (real == NULL) {
		real = dlsym(RTLD_NEXT, "clock_gettime");
	}
	rc = real(id, ts);
	if (rc == 0 && id == CLOCK_REALTIME) {
		ts->tv_sec += clock_shift();
	}
	return rc;
}

time_t
time(time_t *t)
{
	struct timespec ts;

	if (clock_gettime(CLOCK_REALTIME, &ts) < 0) {
		return (time_t)-1;
	}
	if (t != NULL) {
		*t = ts.tv_sec;
	}
	return ts.tv_sec;
}

#if !defined INCLUDED_h_echsd_shim_h_
#define INCLUDED_h_echsd_shim_h_
#include <stddef.h>
#include <sys/types.h>

#define HX_MAXPROC 131072
#define HX_MAXLIVES 4096

struct hx_proc {
	pid_t pid;
	double t;
	int alive;
	int norun;
	int rfd;
	double stopped;	/* when it was stopped (SIGSTOP), 0 while running */
};

extern struct hx_proc hx_procs[HX_MAXPROC];
extern size_t hx_nprocs;
extern double hx_now, hx_stop, hx_late, hx_mono_off;
extern int hx_iter_log;
extern void (*hx_poll_hook)(void);
extern long hx_fs_calls, hx_crash_at, hx_fault_at;
extern int hx_fault_errno;
extern long hx_spawn_fail_in;

extern void hx_log(const char *fmt, ...) __attribute__((format(printf, 1, 2)));
extern void hx_log_esc(const char *s, size_t n);
extern void hx_flush(void);
extern void hx_drain_vtodos(void);
extern void hx_queue_exit(size_t idx, int status);
extern void hx_queue_jobctl(size_t idx, int cont);
#endif

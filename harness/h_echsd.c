/* h_echsd -- the unmodified daemon (echsd.c) on the real libev under a virtual clock.
 * One script per process on stdin (framed like the other harnesses:  CASE <id> <len>\n<opts>\n<script>),
 * event log on stdout, "END <id> ok" at the end.
 *
 * script commands (one per line):
 *   spool DIR             spool directory (must exist), needed before start
 *   now T                 set the virtual clock (unix seconds, may be fractional)
 *   start                 make_echsd() and reload the queues from the spool directory
 *   req UID HEX [c1,c2..] open a connection as peer UID, send the bytes (cut at the given offsets),
 *                         half-close, run the loop until the daemon has answered; logs RPL
 *   get UID PATH          same with an HTTP GET
 *   run T                 let virtual time pass until T, processing whatever comes due
 *   late DT               the next sleep of the loop overshoots by DT seconds
 *   stall DT              the daemon is held up for DT seconds (clock jumps, loop does not run)
 *   exit IDX STATUS       the IDX-th spawned child exits (SIGCHLD is delivered, loop runs once)
 *   exitq IDX STATUS      queue the exit only (delivered together with the next one / next run)
 *   dump                  log the armed set
 *   crashat N / faultat N ERRNO   arm the file-syscall fault injector (counting from now)
 *   shutdown              SIGINT, leave the loop, final checkpoint, free everything
 *   tstamp HEX...         print instant_to_tstamp() of instants */
#define main echsd_main
#include "echsd.c"
#undef main

#include <sys/socket.h>
#include "h_echsd_shim.h"

static struct _echsd_s *hctx;
static char spool[PATH_MAX];

static void
h_nolog(int prio, const char *fmt, ...)
{
	(void)prio; (void)fmt;
	return;
}

static void
h_dump(void)
{
	size_t n = 0;
	for (size_t i = 0; i < ztask_ht; i++) {
		n += task_ht[i].oid != 0;
	}
	hx_log("ARMED %.6f %zu", hx_now, n);
	for (size_t i = 0; i < ztask_ht; i++) {
		if (!task_ht[i].oid) continue;
		_task_t t = task_ht[i].t;
		const char *nm = obint_name((obint_t)task_ht[i].oid);
		hx_log(" uid=");
		if (nm) hx_log_esc(nm, strlen(nm)); else hx_log("?");
		hx_log(",owner=%u,cur=%016llx,nrun=%zu,nsim=%zd,active=%d,at=%.3f,resched=%d,maxsim=%u",
		       (unsigned)echs_task_owner(t->t), (unsigned long long)t->cur.u, t->nrun, (ssize_t)t->nsim,
		       ev_is_active(&t->w), ev_periodic_at(&t->w), t->w.reschedule_cb != NULL,
		       (unsigned)t->t->max_simul);
		hx_log(",cmd=");
		if (t->t->cmd) hx_log_esc(t->t->cmd, strlen(t->t->cmd));
	}
	hx_log("\n");
}

static void
h_loop_nowait(int n)
{
	for (int i = 0; i < n; i++) {
		ev_run(hctx->loop, EVRUN_NOWAIT);
		hx_drain_vtodos();
	}
}

/* lifetimes of the children by spawn index, the last one goes for all later ones */
static double lives[HX_MAXLIVES];
static size_t nlives;

static double
h_exit_time(size_t idx)
{
	double l;
	if (!nlives) return 1e300;
	l = lives[idx < nlives ? idx : nlives - 1U];
	if (hx_procs[idx].stopped > 0) return 1e300;
	return l < 0 ? 1e300 : hx_procs[idx].t + l;
}

static size_t first_alive;
static int reap_in_poll;

static int
h_reap_due(void)
{
/* children whose time has come exit now (SIGCHLD) */
	int n = 0;

	if (reap_in_poll) {
		return 0;
	}
	while (first_alive < hx_nprocs && !hx_procs[first_alive].alive) {
		first_alive++;
	}
	for (size_t i = first_alive; i < hx_nprocs; i++) {
		if (hx_procs[i].alive && h_exit_time(i) <= hx_now + 1e-9) {
			hx_log("EXIT %zu %d %.6f\n", i, (int)hx_procs[i].pid, hx_now);
			hx_queue_exit(i, 0);
			n++;
		}
	}
	if (n) {
		ev_feed_signal_event(hctx->loop, SIGCHLD);
	}
	return n;
}

/* the other way for exits to arrive: as a signal while the loop is about to poll (ev_feed_signal() is what libev's
 * own handler calls), so that the exit is collected in the same iteration as the timers that expired meanwhile and
 * after them, the way it happens to a daemon that was held up; with h_reap_due() the exit is always seen first */
static void
h_poll_hook(void)
{
	int n = 0;

	if (!reap_in_poll) {
		return;
	}
	while (first_alive < hx_nprocs && !hx_procs[first_alive].alive) {
		first_alive++;
	}
	for (size_t i = first_alive; i < hx_nprocs; i++) {
		if (hx_procs[i].alive && h_exit_time(i) <= hx_now + 1e-9) {
			hx_log("EXIT %zu %d %.6f\n", i, (int)hx_procs[i].pid, hx_now);
			hx_queue_exit(i, 0);
			n++;
		}
	}
	if (n) {
		ev_feed_signal(SIGCHLD);
	}
}

static double
h_next_exit(void)
{
	double t = 1e300;
	for (size_t i = first_alive; i < hx_nprocs; i++) {
		if (hx_procs[i].alive && h_exit_time(i) < t) {
			t = h_exit_time(i);
		}
	}
	return t;
}

static void
h_run_until(double t)
{
	int guard = 0;
	while (hx_now < t - 1e-9 && guard++ < 2000000) {
		double nx = h_next_exit();
		hx_stop = nx < t ? (nx > hx_now ? nx : hx_now + 1e-6) : t;
		h_reap_due();
		ev_run(hctx->loop, EVRUN_ONCE);
		hx_drain_vtodos();
	}
	hx_stop = t;
	h_reap_due();
	/* whatever is due exactly now */
	ev_run(hctx->loop, EVRUN_NOWAIT);
	hx_drain_vtodos();
	hx_stop = 0.0;
}

static int nconn;

/* what sock_conn_cb() does after accept(); returns the client's end or -1 */
static int
h_open(uid_t peer)
{
	int sv[2];
	struct echs_conn_s *c;

	if (socketpair(AF_UNIX, SOCK_STREAM, 0, sv) < 0) {
		hx_log("ERR socketpair\n");
		return -1;
	}
	if ((c = make_conn()) == NULL) {
		hx_log("ERR too many connections\n");
		close(sv[0]); close(sv[1]);
		return -1;
	}
	c->cred = compl_uid(peer);
	c->cred.u = peer;
	ev_io_init(&c->r, sock_data_cb, sv[0], EV_READ);
	ev_io_start(hctx->loop, &c->r);
	int fl = fcntl(sv[1], F_GETFL);
	fcntl(sv[1], F_SETFL, fl | O_NONBLOCK);
	return sv[1];
}

static void
h_converse(int fd, uid_t peer, const char *data, size_t len, const size_t *cuts, size_t ncuts)
{
	int cid = nconn++;

	hx_log("REQ %d %u %.6f %zu\n", cid, (unsigned)peer, hx_now, len);
	size_t off = 0, ci = 0;
	static char rbuf[1 << 20];
	size_t rn = 0;
	while (off < len) {
		size_t end = len;
		if (ci < ncuts) {
			end = cuts[ci++];
			if (end <= off) continue;
			if (end > len) end = len;
		}
		while (off < end) {
			ssize_t w = send(fd, data + off, end - off, MSG_NOSIGNAL);
			if (w < 0) {
				if (errno == EAGAIN) {
					h_loop_nowait(1);
					continue;
				}
				off = len;
				break;
			}
			off += w;
		}
		h_loop_nowait(2);
		/* keep the reply pipe from filling up */
		for (ssize_t r; rn < sizeof(rbuf) && (r = recv(fd, rbuf + rn, sizeof(rbuf) - rn, 0)) > 0; rn += r);
	}
	shutdown(fd, SHUT_WR);
	for (int i = 0; i < 8; i++) {
		h_loop_nowait(1);
		for (ssize_t r; rn < sizeof(rbuf) && (r = recv(fd, rbuf + rn, sizeof(rbuf) - rn, 0)) > 0; rn += r);
	}
	hx_log("RPL %d ", cid);
	hx_log_esc(rbuf, rn);
	hx_log("\n");
	close(fd);
}

static void
h_request(uid_t peer, const char *data, size_t len, const size_t *cuts, size_t ncuts)
{
	int fd = h_open(peer);

	if (fd < 0) {
		nconn++;
		return;
	}
	h_converse(fd, peer, data, len, cuts, ncuts);
}

/* connections that are accepted now and say what they want later */
static struct {
	int fd;
	uid_t peer;
} held[256];

static size_t
unhex(char *dst, const char *src)
{
	size_t n = 0;
	for (; src[0] && src[1]; src += 2) {
		unsigned int v;
		if (sscanf(src, "%2x", &v) != 1) break;
		dst[n++] = (char)v;
	}
	return n;
}

static void
h_script(char *script)
{
	char *save = NULL;
	static char data[1 << 20];

	for (char *l = strtok_r(script, "\n", &save); l; l = strtok_r(NULL, "\n", &save)) {
		char *p = l;
		while (*p == ' ') p++;
		if (!*p || *p == '#') continue;
		char *cmd = p;
		while (*p && *p != ' ') p++;
		if (*p) *p++ = '\0';

		if (!strcmp(cmd, "spool")) {
			snprintf(spool, sizeof(spool), "%s", p);
			qdirfd = open(spool, O_RDONLY);
			if (qdirfd < 0) hx_log("ERR cannot open spool\n");
		} else if (!strcmp(cmd, "now")) {
			hx_now = strtod(p, NULL);
		} else if (!strcmp(cmd, "start")) {
			echs_log = h_nolog;
			meself.uid = 0;
			meself.gid = 0;
			meself.pid = 4242;
			echsx = "/nonexistent/echsx";
			snprintf(hname, sizeof(hname), "verifhost");
			hnamez = strlen(hname);
			setenv("LIBEV_FLAGS", "2", 1);	/* poll backend */
			hctx = make_echsd();
			if (hctx == NULL) {
				hx_log("ERR make_echsd\n");
				return;
			}
			echsd_inject_queues(hctx, spool);
			h_loop_nowait(2);
			hx_log("STARTED %.6f\n", hx_now);
			h_dump();
		} else if (!strcmp(cmd, "req") || !strcmp(cmd, "get")) {
			uid_t u = (uid_t)strtoul(p, &p, 10);
			while (*p == ' ') p++;
			size_t n;
			size_t cuts[256], ncuts = 0;
			if (*cmd == 'g') {
				n = (size_t)snprintf(data, sizeof(data), "GET %s HTTP/1.1\r\nHost: x\r\n\r\n", p);
			} else {
				char *hex = p;
				while (*p && *p != ' ') p++;
				if (*p) *p++ = '\0';
				n = unhex(data, hex);
				while (*p && ncuts < 256) {
					cuts[ncuts++] = strtoul(p, &p, 10);
					if (*p == ',') p++; else break;
				}
			}
			h_request(u, data, n, cuts, ncuts);
		} else if (!strcmp(cmd, "open")) {
			/* open <peer> <handle> */
			uid_t u = (uid_t)strtoul(p, &p, 10);
			unsigned int h = (unsigned int)strtoul(p, &p, 10) % 256U;
			held[h].peer = u;
			held[h].fd = h_open(u);
			h_loop_nowait(1);
			hx_log("OPEN %u %u %.6f\n", h, (unsigned)u, hx_now);
		} else if (!strcmp(cmd, "complete")) {
			/* complete <handle> <hex> */
			unsigned int h = (unsigned int)strtoul(p, &p, 10) % 256U;
			while (*p == ' ') p++;
			size_t n = unhex(data, p);
			if (held[h].fd > 0) {
				h_converse(held[h].fd, held[h].peer, data, n, NULL, 0U);
			} else {
				nconn++;
			}
			held[h].fd = 0;
		} else if (!strcmp(cmd, "run")) {
			h_run_until(strtod(p, NULL));
		} else if (!strcmp(cmd, "late")) {
			hx_late = strtod(p, NULL);
		} else if (!strcmp(cmd, "stall")) {
			hx_now += strtod(p, NULL);
			hx_log("STALL %.6f\n", hx_now);
		} else if (!strcmp(cmd, "reapmode")) {
			/* reapmode poll|early */
			reap_in_poll = !strncmp(p, "poll", 4);
			hx_poll_hook = h_poll_hook;
		} else if (!strcmp(cmd, "jump")) {
			/* jump DT: the wall clock is stepped forward by DT seconds (settimeofday, resume from suspend),
			 * the monotonic clock is not; to the log this is time that passed without the loop running */
			double dt = strtod(p, NULL);
			hx_now += dt;
			hx_mono_off += dt;
			hx_log("JUMP %.6f\n", hx_now);
			hx_log("STALL %.6f\n", hx_now);
		} else if (!strcmp(cmd, "exit") || !strcmp(cmd, "exitq")) {
			size_t idx = strtoul(p, &p, 10);
			int st = (int)strtol(p, &p, 10);
			hx_log("EXIT %zu %d %.6f\n", idx, idx < hx_nprocs ? (int)hx_procs[idx].pid : -1, hx_now);
			hx_queue_exit(idx, st);
			if (cmd[4] != 'q') {
				ev_feed_signal_event(hctx->loop, SIGCHLD);
				h_loop_nowait(2);
			}
		} else if (!strcmp(cmd, "stop") || !strcmp(cmd, "cont")) {
			/* stop IDX | cont IDX: job control on the IDX-th child (SIGCHLD goes to the daemon as no
			 * SA_NOCLDSTOP is set); a stopped child's remaining life is kept for when it is continued */
			size_t idx = strtoul(p, &p, 10);
			if (idx < hx_nprocs && hx_procs[idx].alive && (*cmd == 's') == !(hx_procs[idx].stopped > 0)) {
				if (*cmd == 's') {
					hx_procs[idx].stopped = hx_now;
				} else {
					hx_procs[idx].t += hx_now - hx_procs[idx].stopped;
					hx_procs[idx].stopped = 0;
				}
				hx_log("%s %zu %d %.6f\n", *cmd == 's' ? "STOP" : "CONT", idx, (int)hx_procs[idx].pid, hx_now);
				hx_queue_jobctl(idx, *cmd == 'c');
				ev_feed_signal_event(hctx->loop, SIGCHLD);
				h_loop_nowait(2);
			}
		} else if (!strcmp(cmd, "spawnfail")) {
			/* spawnfail N: the N-th executor spawn from now fails with EAGAIN */
			hx_spawn_fail_in = strtol(p, NULL, 10);
		} else if (!strcmp(cmd, "lives")) {
			nlives = 0;
			while (*p && nlives < HX_MAXLIVES) {
				lives[nlives++] = strtod(p, &p);
				while (*p == ' ') p++;
			}
		} else if (!strcmp(cmd, "dump")) {
			h_dump();
		} else if (!strcmp(cmd, "crashat")) {
			hx_crash_at = hx_fs_calls + strtol(p, NULL, 10);
		} else if (!strcmp(cmd, "faultat")) {
			hx_fault_at = hx_fs_calls + strtol(p, &p, 10);
			hx_fault_errno = (int)strtol(p, NULL, 10);
		} else if (!strcmp(cmd, "fscount")) {
			hx_log("FSCOUNT %ld\n", hx_fs_calls);
		} else if (!strcmp(cmd, "shutdown")) {
			ev_feed_signal_event(hctx->loop, SIGINT);
			ev_run(hctx->loop, EVRUN_NOWAIT);
			hx_log("SHUTDOWN %.6f\n", hx_now);
			free_echsd(hctx);
			hctx = NULL;
			hx_log("DOWN\n");
		} else if (!strcmp(cmd, "tstamp")) {
			while (*p) {
				echs_instant_t i;
				i.u = strtoull(p, &p, 16);
				hx_log("TS %.3f\n", (double)instant_to_tstamp(i));
				while (*p == ' ') p++;
			}
		} else {
			hx_log("ERR unknown command %s\n", cmd);
		}
	}
}

int
main(void)
{
	char hdr[256];
	size_t hi = 0;
	char c;

	/* never die of a reply nobody reads */
	signal(SIGPIPE, SIG_IGN);
	while (hi + 1 < sizeof(hdr) && read(0, &c, 1) == 1 && c != '\n') {
		hdr[hi++] = c;
	}
	hdr[hi] = '\0';
	char id[64];
	unsigned long len;
	if (sscanf(hdr, "CASE %63s %lu", id, &len) != 2) {
		return 2;
	}
	char *pl = malloc(len + 1);
	size_t got = 0;
	while (got < len) {
		ssize_t r = read(0, pl + got, len - got);
		if (r <= 0) break;
		got += r;
	}
	pl[got] = '\0';
	char *nl = strchr(pl, '\n');
	if (nl == NULL) {
		return 2;
	}
	*nl = '\0';
	if (strstr(pl, "mode=tstamp")) {
		hx_iter_log = 0;
		char *save = NULL;
		for (char *l = strtok_r(nl + 1, "\n", &save); l; l = strtok_r(NULL, "\n", &save)) {
			echs_instant_t i;
			i.u = strtoull(l, NULL, 16);
			hx_log("TS %.3f\n", (double)instant_to_tstamp(i));
		}
	} else {
		if (strstr(pl, "iter=0")) {
			hx_iter_log = 0;
		}
		h_script(nl + 1);
	}
	hx_log("END %s ok\n", id);
	hx_flush();
	_exit(0);
}

/* h_strm -- case server around the libechse parser and event streams
 * (C01 C02 C03 C05 C07 C09 C10 C16 C17).
 *
 * input framing:   CASE <id> <nbytes>\n<payload>
 * payload:         first line = space separated options, rest = ical bytes
 * options:
 *   chunk=N          feed the parser N bytes at a time (0 = all at once)
 *   cuts=a,b,c       feed the parser in pieces cut at these byte offsets
 *   n=N              pop up to N occurrences per task stream (default 0)
 *   skip=K           pop K occurrences first without printing them
 *   style=pop|peekpop|npeek   how occurrences are consumed
 *   mux=1            combine all task streams with echs_evstrm_vmux first
 *   sched=WORD       run the word over {n,p,c} on the (muxed) stream instead of n=
 *   ser=1            after skip, icalify every task into a memfd, print the bytes
 *   fields=1         dump the task fields
 *   budget=MS        CPU budget for the whole case (default 10000)
 *   rrule=1          payload is "DTSTART-text\nRRULE-text\n..." handed to echs_read_rrul /
 *                    echs_make_evstrm_rrul (the command line path)
 * output: lines, terminated by "END <id> <status>\n" */
#define _GNU_SOURCE
#if defined HAVE_CONFIG_H
# include "config.h"
#endif
#include <stdio.h>
#include <stdlib.h>
#include <stdarg.h>
#include <string.h>
#include <stdint.h>
#include <inttypes.h>
#include <signal.h>
#include <unistd.h>
#include <fcntl.h>
#include <sys/time.h>
#include <sys/mman.h>
#include "instant.h"
#include "event.h"
#include "evstrm.h"
#include "evical.h"
#include "task.h"
#include "intern.h"
#include "dt-strpf.h"
#include "nummapstr.h"
#include "tzob.h"
#include "scale.h"

/* own output buffer, so that the budget handler can flush what we have */
static char obuf[1 << 20];
static size_t obi;
static char caseid[64];

static void
oflush(void)
{
	size_t off = 0;
	while (off < obi) {
		ssize_t n = write(1, obuf + off, obi - off);
		if (n <= 0) break;
		off += n;
	}
	obi = 0;
}

static void __attribute__((format(printf, 1, 2)))
out(const char *fmt, ...)
{
	va_list ap;
	if (obi > sizeof(obuf) - 8192) oflush();
	va_start(ap, fmt);
	int n = vsnprintf(obuf + obi, sizeof(obuf) - obi, fmt, ap);
	va_end(ap);
	if (n > 0) {
		obi += (size_t)n < sizeof(obuf) - obi ? (size_t)n : sizeof(obuf) - obi - 1;
	}
}

static void
out_esc(const char *s, size_t n)
{
	for (size_t i = 0; i < n; i++) {
		unsigned char c = (unsigned char)s[i];
		if (obi > sizeof(obuf) - 64) oflush();
		if (c <= 0x20 || c >= 0x7f || c == '%') {
			obi += sprintf(obuf + obi, "%%%02x", c);
		} else {
			obuf[obi++] = (char)c;
		}
	}
}

static void
on_vtalrm(int sig)
{
	(void)sig;
	out("\nTIMEOUT %s\n", caseid);
	oflush();
	_exit(3);
}

static void
arm_ms(unsigned long ms)
{
	struct itimerval it = {{0, 0}, {ms / 1000, (ms % 1000) * 1000}};
	setitimer(ITIMER_VIRTUAL, &it, NULL);
}

/* options */
static long opt_chunk, opt_n, opt_skip, opt_mux, opt_ser, opt_fields, opt_rrule;
static long opt_budget;
static char opt_style[16];
static char *opt_sched;
static size_t cuts[4096];
static size_t ncuts;

static void
parse_opts(char *l)
{
	opt_chunk = 0; opt_n = 0; opt_skip = 0; opt_mux = 0; opt_ser = 0;
	opt_fields = 0; opt_budget = 10000; opt_rrule = 0;
	strcpy(opt_style, "pop");
	free(opt_sched); opt_sched = NULL;
	ncuts = 0;
	for (char *tok = strtok(l, " "); tok; tok = strtok(NULL, " ")) {
		char *eq = strchr(tok, '=');
		if (!eq) continue;
		*eq++ = '\0';
		if (!strcmp(tok, "chunk")) opt_chunk = atol(eq);
		else if (!strcmp(tok, "n")) opt_n = atol(eq);
		else if (!strcmp(tok, "skip")) opt_skip = atol(eq);
		else if (!strcmp(tok, "mux")) opt_mux = atol(eq);
		else if (!strcmp(tok, "ser")) opt_ser = atol(eq);
		else if (!strcmp(tok, "fields")) opt_fields = atol(eq);
		else if (!strcmp(tok, "budget")) opt_budget = atol(eq);
		else if (!strcmp(tok, "rrule")) opt_rrule = atol(eq);
		else if (!strcmp(tok, "style")) strncpy(opt_style, eq, sizeof(opt_style) - 1);
		else if (!strcmp(tok, "sched")) opt_sched = strdup(eq);
		else if (!strcmp(tok, "cuts")) {
			char *p = eq;
			while (*p && ncuts < 4096) {
				cuts[ncuts++] = strtoul(p, &p, 10);
				if (*p == ',') p++;
			}
		}
	}
}

static void
out_nms(const char *key, nummapstr_t x)
{
	const char *s;
	uintptr_t n;
	if (!x) {
		return;
	} else if ((s = nummapstr_str(x))) {
		out("T %s=s:", key); out_esc(s, strlen(s)); out("\n");
	} else if ((n = nummapstr_num(x)) != NUMMAPSTR_NAN) {
		out("T %s=n:%lu\n", key, (unsigned long)n);
	}
}

static void
out_str(const char *key, const char *s)
{
	if (s) {
		out("T %s=", key); out_esc(s, strlen(s)); out("\n");
	}
}

static void
dump_fields(echs_task_t t)
{
	out_str("cmd", t->cmd);
	out_str("desc", t->desc);
	out_str("org", t->org);
	if (t->att) {
		for (const char *const *ap = (const char *const*)t->att->l; *ap; ap++) {
			out_str("att", *ap);
		}
	}
	out_str("in", t->in);
	out_str("out", t->out);
	out_str("err", t->err);
	out_str("wd", t->run_as.wd);
	out_str("sh", t->run_as.sh);
	out_nms("owner", t->owner);
	out_nms("suid", t->run_as.u);
	out_nms("sgid", t->run_as.g);
	out("T mailout=%u/%u\n", t->mailout, t->moutset);
	out("T mailerr=%u/%u\n", t->mailerr, t->merrset);
	out("T mailrun=%u/%u\n", t->mailrun, t->mrunset);
	out("T max_simul=%u\n", t->max_simul);
	out("T umsk=%u\n", t->umsk);
	out("T vtod_typ=%u\n", (unsigned)t->vtod_typ);
	switch (t->vtod_typ) {
	case VTOD_TYP_TIMEOUT:
		out("T timeout=%" PRId64 "\n", t->timeout.d);
		break;
	case VTOD_TYP_DUE:
		out("T due=%016" PRIx64 "\n", t->due.u);
		break;
	case VTOD_TYP_COMPL:
		out("T compl=%016" PRIx64 "\n", t->compl.u);
		break;
	default:
		break;
	}
	out("T strm=%d\n", t->strm != NULL);
}

static void
out_ev(char tag, echs_event_t e)
{
	if (echs_nul_event_p(e)) {
		out("%c -\n", tag);
		return;
	}
	const char *nm = e.oid ? obint_name((obint_t)e.oid) : NULL;
	out("%c %016" PRIx64 " %" PRId64 " ", tag, e.from.u, e.dur.d);
	if (nm) out_esc(nm, strlen(nm)); else out("-");
	out("\n");
}

/* consume up to N occurrences from S in the requested style; returns 1 if ended */
static int
consume(echs_evstrm_t s, long n, int print)
{
	for (long k = 0; k < n; k++) {
		echs_event_t e;
		if (!strcmp(opt_style, "pop")) {
			e = echs_evstrm_pop(s);
		} else if (!strcmp(opt_style, "peekpop")) {
			echs_event_t p = echs_evstrm_next(s);
			e = echs_evstrm_pop(s);
			if (p.from.u != e.from.u || p.dur.d != e.dur.d || p.oid != e.oid) {
				out("M peek!=pop %016" PRIx64 " %016" PRIx64 "\n", p.from.u, e.from.u);
			}
		} else {
			/* npeek: peek three times, then pop */
			echs_event_t p1 = echs_evstrm_next(s);
			echs_event_t p2 = echs_evstrm_next(s);
			echs_event_t p3 = echs_evstrm_next(s);
			e = echs_evstrm_pop(s);
			if (p1.from.u != p2.from.u || p2.from.u != p3.from.u ||
			    p3.from.u != e.from.u || p1.oid != e.oid) {
				out("M peeks differ %016" PRIx64 " %016" PRIx64 " %016" PRIx64
				    " %016" PRIx64 "\n", p1.from.u, p2.from.u, p3.from.u, e.from.u);
			}
		}
		if (print) out_ev('O', e);
		if (echs_nul_event_p(e)) {
			return 1;
		}
	}
	return 0;
}

static void
run_sched(echs_evstrm_t s, const char *w)
{
	for (; *w; w++) {
		switch (*w) {
		case 'n':
			out_ev('N', echs_evstrm_next(s));
			break;
		case 'p':
			out_ev('P', echs_evstrm_pop(s));
			break;
		case 'c': {
			echs_evstrm_t c = clone_echs_evstrm(s);
			if (c == NULL) {
				out("C null\n");
				break;
			}
			/* carry on with the clone, drop the original */
			free_echs_evstrm(s);
			s = c;
			out("C ok\n");
			break;
		}
		default:
			break;
		}
	}
	free_echs_evstrm(s);
}

#define MAXT 4096
static echs_task_t tasks[MAXT];
static size_t ntasks;
static size_t ninstr;

static void
handle_ins(echs_instruc_t ins)
{
	switch (ins.v) {
	case INSVERB_SCHE:
		if (ins.t == NULL) {
			out("I %zu SCHE null\n", ninstr++);
			break;
		}
		out("I %zu SCHE uid=", ninstr++);
		if (ins.t->oid) {
			const char *nm = obint_name((obint_t)ins.t->oid);
			if (nm) out_esc(nm, strlen(nm)); else out("?");
		} else {
			out("-");
		}
		out(" o=%lx\n", (unsigned long)ins.o);
		if (opt_fields) dump_fields(ins.t);
		if (ntasks < MAXT) {
			tasks[ntasks++] = ins.t;
		} else {
			free_echs_task(ins.t);
		}
		break;
	case INSVERB_UNSC:
	case INSVERB_RESC: {
		const char *nm = ins.o ? obint_name((obint_t)ins.o) : NULL;
		out("I %zu %s uid=", ninstr++, ins.v == INSVERB_UNSC ? "UNSC" : "RESC");
		if (nm) out_esc(nm, strlen(nm)); else out("-");
		if (ins.v == INSVERB_UNSC) {
			out(" rng=%016" PRIx64 ",%016" PRIx64, ins.rng.beg.u, ins.rng.end.u);
		}
		out("\n");
		break;
	}
	default:
		out("I %zu V%d\n", ninstr++, (int)ins.v);
		break;
	}
}

static void
parse_ical(const char *buf, size_t len, long chunk, const size_t *cut, size_t ncut)
{
/* drives the pull parser the way _inject_fd / echsd / echsx do:
 * push a piece, pull until UNK, finally one last_pull */
	ical_parser_t pp = NULL;
	size_t off = 0, ci = 0;
	char *prev = NULL;

	ntasks = 0; ninstr = 0;
	while (off < len) {
		size_t end;
		if (ci < ncut) {
			end = cut[ci++];
			if (end <= off) continue;
			if (end > len) end = len;
		} else if (chunk > 0) {
			end = off + (size_t)chunk < len ? off + (size_t)chunk : len;
		} else {
			end = len;
		}
		/* hand the parser an exact-size heap copy so that ASan sees overreads */
		size_t n = end - off;
		char *piece = malloc(n);
		memcpy(piece, buf + off, n);
		/* the real callers re-use one buffer, so the previous piece is
		 * dead as soon as the next one is pushed, but not earlier */
		free(prev);
		prev = piece;
		if (echs_evical_push(&pp, piece, n) < 0) {
			break;
		}
		for (;;) {
			echs_instruc_t ins = echs_evical_pull(&pp);
			if (ins.v == INSVERB_UNK) break;
			handle_ins(ins);
		}
		off = end;
	}
	if (pp != NULL) {
		echs_instruc_t ins = echs_evical_last_pull(&pp);
		if (ins.v != INSVERB_UNK) {
			out("L ");
			handle_ins(ins);
		}
	}
	free(prev);
}

static char*
serialise(echs_task_t *ts, size_t nts, size_t *len)
{
/* the way chkpnt1() writes a queue file */
	int fd = memfd_create("ser", 0);
	if (fd < 0) return NULL;
	int inited = 0;
	for (size_t i = 0; i < nts; i++) {
		if (!inited) {
			echs_instruc_t ins = {INSVERB_SCHE, 0U, .t = ts[i]};
			echs_icalify_init(fd, ins);
			inited = 1;
		}
		echs_task_icalify(fd, ts[i]);
	}
	if (!inited) {
		echs_icalify_init(fd, (echs_instruc_t){INSVERB_UNK});
	}
	echs_icalify_fini(fd);
	off_t z = lseek(fd, 0, SEEK_END);
	char *res = malloc(z + 1);
	lseek(fd, 0, SEEK_SET);
	size_t got = 0;
	while (got < (size_t)z) {
		ssize_t n = read(fd, res + got, z - got);
		if (n <= 0) break;
		got += n;
	}
	res[got] = '\0';
	*len = got;
	close(fd);
	return res;
}

static void
streams_phase(void)
{
	if (opt_mux || opt_sched) {
		echs_evstrm_t *ss = calloc(ntasks + 1, sizeof(*ss));
		size_t ns = 0;
		for (size_t i = 0; i < ntasks; i++) {
			if (tasks[i]->strm) {
				ss[ns++] = tasks[i]->strm;
				((struct echs_task_s*)tasks[i])->strm = NULL;
			}
		}
		echs_evstrm_t m = echs_evstrm_vmux(ss, ns);
		free(ss);
		out("S mux ns=%zu\n", ns);
		if (m == NULL) {
			out("O -\n");
			return;
		}
		if (opt_sched) {
			run_sched(m, opt_sched);
		} else {
			consume(m, opt_skip, 0);
			consume(m, opt_n, 1);
			free_echs_evstrm(m);
		}
		return;
	}
	for (size_t i = 0; i < ntasks; i++) {
		out("S %zu\n", i);
		if (tasks[i]->strm == NULL) {
			out("O -\n");
			continue;
		}
		if (consume(tasks[i]->strm, opt_skip, 0)) {
			out("O -\n");
			continue;
		}
		if (!opt_ser) {
			consume(tasks[i]->strm, opt_n, 1);
		}
	}
	if (opt_ser) {
		size_t z = 0;
		char *b = serialise(tasks, ntasks, &z);
		if (b == NULL) {
			out("X serialise failed\n");
			return;
		}
		out("B "); out_esc(b, z); out("\n");
		/* the original carries on (instance A's own view) */
		for (size_t i = 0; i < ntasks; i++) {
			out("S %zu\n", i);
			if (tasks[i]->strm) consume(tasks[i]->strm, opt_n, 1);
			else out("O -\n");
		}
		/* now what a reader of those bytes gets */
		echs_task_t keep[MAXT];
		size_t nkeep = ntasks;
		memcpy(keep, tasks, sizeof(*keep) * ntasks);
		out("R begin\n");
		long sf = opt_fields;
		opt_fields = 1;
		parse_ical(b, z, 0, NULL, 0);
		opt_fields = sf;
		for (size_t i = 0; i < ntasks; i++) {
			out("S %zu\n", i);
			if (tasks[i]->strm) consume(tasks[i]->strm, opt_n, 1);
			else out("O -\n");
		}
		for (size_t i = 0; i < ntasks; i++) free_echs_task(tasks[i]);
		out("R end\n");
		memcpy(tasks, keep, sizeof(*keep) * nkeep);
		ntasks = nkeep;
		free(b);
	}
}

static void
rrule_case(char *buf, size_t len)
{
/* command line path: first line DTSTART value, following lines one RRULE each */
	struct rrulsp_s rr[16];
	size_t nr = 0;
	char *save = NULL;
	(void)len;
	char *l = strtok_r(buf, "\n", &save);
	if (l == NULL) return;
	echs_instant_t from = dt_strp(l, NULL, 0U);
	while ((l = strtok_r(NULL, "\n", &save)) && nr < 16) {
		rr[nr++] = echs_read_rrul(l, strlen(l));
	}
	echs_evstrm_t s = echs_make_evstrm_rrul(from, rr, nr);
	out("S rrule nr=%zu\n", nr);
	if (s == NULL) {
		out("O -\n");
		return;
	}
	if (opt_sched) {
		run_sched(s, opt_sched);
		return;
	}
	consume(s, opt_skip, 0);
	consume(s, opt_n, 1);
	free_echs_evstrm(s);
}

static ssize_t
read_full(char *buf, size_t n)
{
	size_t got = 0;
	while (got < n) {
		ssize_t r = read(0, buf + got, n - got);
		if (r <= 0) return -1;
		got += r;
	}
	return got;
}

static ssize_t
read_line(char *buf, size_t z)
{
	size_t i = 0;
	while (i + 1 < z) {
		char c;
		ssize_t r = read(0, &c, 1);
		if (r <= 0) return -1;
		if (c == '\n') break;
		buf[i++] = c;
	}
	buf[i] = '\0';
	return i;
}

int
main(void)
{
	char hdr[256];
	signal(SIGVTALRM, on_vtalrm);
	while (read_line(hdr, sizeof(hdr)) >= 0) {
		unsigned long len;
		if (sscanf(hdr, "CASE %63s %lu", caseid, &len) != 2) {
			if (!strcmp(hdr, "QUIT")) break;
			continue;
		}
		char *pl = malloc(len + 1);
		if (read_full(pl, len) < 0) break;
		pl[len] = '\0';
		char *nl = memchr(pl, '\n', len);
		if (nl == NULL) {
			out("END %s badcase\n", caseid);
			oflush();
			free(pl);
			continue;
		}
		*nl = '\0';
		parse_opts(pl);
		char *body = nl + 1;
		size_t blen = len - (body - pl);
		arm_ms(opt_budget);
		if (opt_rrule) {
			rrule_case(body, blen);
		} else {
			/* exact-size copy of the body */
			char *cp = malloc(blen ? blen : 1);
			memcpy(cp, body, blen);
			parse_ical(cp, blen, opt_chunk, cuts, ncuts);
			free(cp);
			if (opt_n || opt_skip || opt_sched || opt_ser) {
				streams_phase();
			}
			for (size_t i = 0; i < ntasks; i++) {
				free_echs_task(tasks[i]);
			}
			ntasks = 0;
		}
		arm_ms(0);
		out("END %s ok\n", caseid);
		oflush();
		free(pl);
	}
	oflush();
	return 0;
}

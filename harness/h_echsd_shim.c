/* h_echsd_shim -- link-time interposition for the echsd harness: virtual clock, poll,
 * process table (posix_spawn/waitpid), passwd database, file syscalls with crash/fault
 * injection.  Lives in its own translation unit (needs _GNU_SOURCE). */
#define _GNU_SOURCE
#include <stdio.h>
#include <stdlib.h>
#include <stdarg.h>
#include <string.h>
#include <stdint.h>
#include <errno.h>
#include <time.h>
#include <unistd.h>
#include <fcntl.h>
#include <poll.h>
#include <pwd.h>
#include <spawn.h>
#include <signal.h>
#include <sys/time.h>
#include <sys/types.h>
#include <sys/wait.h>
#include <sys/syscall.h>
#include "h_echsd_shim.h"

/* ---- log */
static char lbuf[1 << 16];
static size_t lbi;

void
hx_flush(void)
{
	size_t off = 0;
	while (off < lbi) {
		long n = syscall(SYS_write, 1, lbuf + off, lbi - off);
		if (n <= 0) break;
		off += n;
	}
	lbi = 0;
}

void
hx_log(const char *fmt, ...)
{
	va_list ap;
	if (lbi > sizeof(lbuf) - 8192) hx_flush();
	va_start(ap, fmt);
	int n = vsnprintf(lbuf + lbi, sizeof(lbuf) - lbi, fmt, ap);
	va_end(ap);
	if (n > 0) lbi += (size_t)n < sizeof(lbuf) - lbi ? (size_t)n : sizeof(lbuf) - lbi - 1;
}

void
hx_log_esc(const char *s, size_t n)
{
	for (size_t i = 0; i < n; i++) {
		unsigned char c = (unsigned char)s[i];
		if (lbi > sizeof(lbuf) - 64) hx_flush();
		if (c <= 0x20 || c >= 0x7f || c == '%' || c == ',' || c == '|') {
			lbi += sprintf(lbuf + lbi, "%%%02x", c);
		} else {
			lbuf[lbi++] = (char)c;
		}
	}
}

/* ---- virtual clock */
double hx_now = 1000000000.0;
double hx_stop = 0.0;		/* the loop driver's target time */
double hx_late = 0.0;		/* extra lateness to add to the next sleep */
double hx_mono_off = 900000000.0;	/* wall clock minus monotonic clock; grows when the wall clock is stepped */
int hx_iter_log = 1;
void (*hx_poll_hook)(void);

int
clock_gettime(clockid_t id, struct timespec *ts)
{
	double t = hx_now;
	if (id == CLOCK_MONOTONIC || id == CLOCK_MONOTONIC_RAW || id == CLOCK_BOOTTIME) {
		t -= hx_mono_off;
	}
	ts->tv_sec = (time_t)t;
	ts->tv_nsec = (long)((t - (double)ts->tv_sec) * 1e9);
	return 0;
}

int
gettimeofday(struct timeval *tv, void *tz)
{
	(void)tz;
	tv->tv_sec = (time_t)hx_now;
	tv->tv_usec = (long)((hx_now - (double)tv->tv_sec) * 1e6);
	return 0;
}

time_t
time(time_t *t)
{
	time_t r = (time_t)hx_now;
	if (t) *t = r;
	return r;
}

int
timerfd_create(int clockid, int flags)
{
	(void)clockid; (void)flags;
	errno = ENOSYS;
	return -1;
}

int
poll(struct pollfd *fds, nfds_t nfds, int timeout)
{
/* the event loop's blocking point: report what is ready right now, otherwise let
 * virtual time pass (never beyond the driver's stop time) */
	struct timespec zero = {0, 0};
	int r;

	if (hx_poll_hook != NULL) {
		/* what happens to the process while it is about to sleep, e.g. SIGCHLD for children that have exited */
		hx_poll_hook();
	}
	r = (int)syscall(SYS_ppoll, fds, nfds, &zero, NULL, 0);

	if (r == 0 && timeout != 0) {
		/* a real wake-up is never exactly on time: 150 us of latency */
		double dt = timeout < 0 ? 1e9 : timeout / 1000.0 + 0.00015;
		double wake = hx_now + dt + hx_late;
		hx_late = 0.0;
		if (hx_stop > 0.0 && wake > hx_stop) {
			wake = hx_stop;
		}
		if (wake > hx_now) {
			hx_now = wake;
		}
	} else if (r == 0 && hx_stop > 0.0 && hx_now < hx_stop) {
		/* a non-blocking pass while the driver lets time flow: time flows */
		hx_now += 0.0001;
	}
	if (hx_iter_log) {
		hx_log("ITER %.6f to=%d r=%d\n", hx_now, timeout, r);
	}
	return r;
}

/* ---- passwd */
static struct passwd pw;
static char pwname[64], pwdir[96], pwshell[32];

struct passwd*
getpwuid(uid_t u)
{
	if (u >= 60000 && u != 65534) {
		return NULL;
	}
	snprintf(pwname, sizeof(pwname), "u%u", (unsigned)u);
	snprintf(pwdir, sizeof(pwdir), "/home/u%u", (unsigned)u);
	snprintf(pwshell, sizeof(pwshell), "/bin/sh");
	pw.pw_name = pwname;
	pw.pw_uid = u;
	pw.pw_gid = u + 100;
	pw.pw_dir = pwdir;
	pw.pw_shell = pwshell;
	pw.pw_passwd = (char*)"x";
	pw.pw_gecos = (char*)"";
	return &pw;
}

struct passwd*
getpwnam(const char *name)
{
	if (name == NULL || name[0] != 'u') {
		return NULL;
	}
	char *on;
	unsigned long u = strtoul(name + 1, &on, 10);
	if (*on) return NULL;
	return getpwuid((uid_t)u);
}

/* ---- process table */
struct hx_proc hx_procs[HX_MAXPROC];
long hx_spawn_fail_in;		/* the n-th spawn from now fails, 0 = none */
size_t hx_nprocs;
static int last_pipe[2] = {-1, -1};
static pid_t exitq[HX_MAXPROC];
static int exitst[HX_MAXPROC];
static unsigned char exitjc[HX_MAXPROC];	/* 0 exit, 1 stopped, 2 continued */
static size_t nexitq;

int
pipe(int fds[2])
{
	int r = (int)syscall(SYS_pipe2, fds, 0);
	if (r == 0) {
		last_pipe[0] = fds[0];
		last_pipe[1] = fds[1];
	}
	return r;
}

int
posix_spawn(pid_t *pid, const char *path, const posix_spawn_file_actions_t *fa,
	    const posix_spawnattr_t *attr, char *const argv[], char *const envp[])
{
	(void)fa; (void)attr; (void)envp;
	if (hx_nprocs >= HX_MAXPROC) {
		/* the checkers take this line for "history too big for the harness" */
		hx_log("ERR process table full\n");
		return EAGAIN;
	}
	struct hx_proc *p = &hx_procs[hx_nprocs];
	p->pid = 5000 + (pid_t)hx_nprocs;
	p->t = hx_now;
	p->alive = 1;
	p->stopped = 0;
	/* the child would hold the read end of the pipe the VTODO comes through */
	p->rfd = last_pipe[0] >= 0 ? (int)syscall(SYS_dup, last_pipe[0]) : -1;
	hx_log("SPAWN %zu %d %.6f %s", hx_nprocs, (int)p->pid, hx_now, path);
	p->norun = 0;
	for (char *const *a = argv; a && *a; a++) {
		hx_log("|");
		hx_log_esc(*a, strlen(*a));
		if ((*a)[0] == '-' && (*a)[1] != '-' && strchr(*a, 'n')) {
			p->norun = 1;
		}
		if (!strcmp(*a, "--no-run")) {
			p->norun = 1;
		}
	}
	hx_log("\n");
	if (hx_spawn_fail_in > 0 && --hx_spawn_fail_in == 0) {
		/* the system has no process to spare: like the real call this hands the error back (errno is not
		 * involved) and leaves *pid alone.  To the log the attempt is a run that is over at once */
		hx_log("SPAWNFAIL %zu %.6f\n", hx_nprocs, hx_now);
		hx_log("EXIT %zu %d %.6f\n", hx_nprocs, (int)p->pid, hx_now);
		hx_log("REAP %d %.6f\n", (int)p->pid, hx_now);
		p->alive = 0;
		hx_nprocs++;
		return EAGAIN;
	}
	*pid = p->pid;
	hx_nprocs++;
	return 0;
}

void
hx_drain_vtodos(void)
{
	static size_t next_drain;
	size_t i = next_drain;
	next_drain = hx_nprocs;
	for (; i < hx_nprocs; i++) {
		struct hx_proc *p = &hx_procs[i];
		if (p->rfd >= 0) {
			char buf[16384];
			size_t tot = 0;
			long n;
			/* the write end has been closed by run_task() by now */
			int fl = fcntl(p->rfd, F_GETFL);
			fcntl(p->rfd, F_SETFL, fl | O_NONBLOCK);
			while (tot < sizeof(buf) && (n = syscall(SYS_read, p->rfd, buf + tot, sizeof(buf) - tot)) > 0) {
				tot += n;
			}
			syscall(SYS_close, p->rfd);
			p->rfd = -1;
			hx_log("VTODO %zu ", i);
			hx_log_esc(buf, tot);
			hx_log("\n");
		}
	}
}

void
hx_queue_exit(size_t idx, int status)
{
	if (idx < hx_nprocs && hx_procs[idx].alive && nexitq < HX_MAXPROC) {
		hx_procs[idx].alive = 0;
		exitq[nexitq] = hx_procs[idx].pid;
		exitjc[nexitq] = 0;
		exitst[nexitq++] = status;
	}
}

void
hx_queue_jobctl(size_t idx, int cont)
{
/* the child is stopped or continued: a state change that waitpid() reports to those who ask for it
 * (WUNTRACED, WCONTINUED); the child is as alive as before */
	if (idx < hx_nprocs && hx_procs[idx].alive && nexitq < HX_MAXPROC) {
		exitq[nexitq] = hx_procs[idx].pid;
		exitjc[nexitq] = cont ? 2 : 1;
		exitst[nexitq++] = cont ? 0xffff : ((SIGSTOP << 8) | 0x7f);
	}
}

pid_t
waitpid(pid_t pid, int *status, int options)
{
	for (size_t i = 0; i < nexitq; i++) {
		if (pid == -1 || pid == exitq[i]) {
			pid_t r = exitq[i];
			int st = exitst[i];
			int jc = exitjc[i];
			memmove(exitq + i, exitq + i + 1, (nexitq - i - 1) * sizeof(*exitq));
			memmove(exitst + i, exitst + i + 1, (nexitq - i - 1) * sizeof(*exitst));
			memmove(exitjc + i, exitjc + i + 1, (nexitq - i - 1) * sizeof(*exitjc));
			nexitq--;
			if ((jc == 1 && !(options & WUNTRACED)) || (jc == 2 && !(options & WCONTINUED))) {
				/* not asked for */
				i--;
				continue;
			}
			if (status) *status = st;
			hx_log(jc ? "JOBCTL %d %.6f %s\n" : "REAP %d %.6f\n", (int)r, hx_now, jc == 1 ? "stopped" : "continued");
			return r;
		}
	}
	if (options & WNOHANG) {
		return 0;
	}
	errno = ECHILD;
	return -1;
}

/* ---- file syscalls of the checkpoint, with crash and fault injection */
long hx_fs_calls;
long hx_crash_at;		/* _exit before the n-th counted call, 0 = never */
long hx_fault_at;		/* make the n-th counted call fail */
int hx_fault_errno = ENOSPC;
static unsigned char tracked[1024];

static int
fs_gate(const char *op, const char *what, int fd)
{
/* returns 1 if the call is to fail */
	hx_fs_calls++;
	if (hx_crash_at && hx_fs_calls == hx_crash_at) {
		hx_log("FS %ld %s %s %d CRASH-BEFORE\n", hx_fs_calls, op, what ? what : "-", fd);
		hx_flush();
		_exit(42);
	}
	if (hx_fault_at && hx_fs_calls == hx_fault_at) {
		hx_log("FS %ld %s %s %d INJECTED errno=%d\n", hx_fs_calls, op, what ? what : "-", fd, hx_fault_errno);
		return 1;
	}
	hx_log("FS %ld %s %s %d\n", hx_fs_calls, op, what ? what : "-", fd);
	return 0;
}

int
openat(int dirfd, const char *path, int flags, ...)
{
	mode_t mode = 0;
	if (flags & (O_CREAT | O_TMPFILE)) {
		va_list ap;
		va_start(ap, flags);
		mode = (mode_t)va_arg(ap, int);
		va_end(ap);
	}
	/* the temporary name, or (should the code ever do that) the live file itself */
	int ckp = (flags & (O_TRUNC | O_WRONLY | O_RDWR | O_APPEND)) &&
		(!strncmp(path, ".echsq_", 7) || !strncmp(path, "echsq_", 6));
	if (ckp && fs_gate("openat", path, dirfd)) {
		errno = hx_fault_errno == ENOSPC ? EMFILE : hx_fault_errno;
		return -1;
	}
	int fd = (int)syscall(SYS_openat, dirfd, path, flags, mode);
	if (ckp && fd >= 0 && fd < (int)sizeof(tracked)) {
		tracked[fd] = 1;
	}
	return fd;
}

ssize_t
write(int fd, const void *buf, size_t n)
{
	if (fd >= 0 && fd < (int)sizeof(tracked) && tracked[fd]) {
		if (fs_gate("write", NULL, fd)) {
			if (hx_fault_errno == -1 && n > 1) {
				/* short write */
				return (ssize_t)syscall(SYS_write, fd, buf, n / 2);
			}
			errno = hx_fault_errno > 0 ? hx_fault_errno : EIO;
			return -1;
		}
	}
	return (ssize_t)syscall(SYS_write, fd, buf, n);
}

int
close(int fd)
{
	if (fd >= 0 && fd < (int)sizeof(tracked) && tracked[fd]) {
		int fail = fs_gate("close", NULL, fd);
		tracked[fd] = 0;
		int r = (int)syscall(SYS_close, fd);
		if (fail) {
			errno = hx_fault_errno > 0 ? hx_fault_errno : EIO;
			return -1;
		}
		return r;
	}
	return (int)syscall(SYS_close, fd);
}

int
renameat(int odfd, const char *o, int ndfd, const char *n)
{
	if (!strncmp(o, ".echsq_", 7)) {
		if (fs_gate("renameat", o, odfd)) {
			errno = hx_fault_errno > 0 ? hx_fault_errno : EIO;
			return -1;
		}
		int r = (int)syscall(SYS_renameat, odfd, o, ndfd, n);
		hx_log("CHKPT-PUBLISHED %s %.6f\n", n, hx_now);
		return r;
	}
	return (int)syscall(SYS_renameat, odfd, o, ndfd, n);
}

int
unlinkat(int dfd, const char *p, int fl)
{
	if (!strncmp(p, ".echsq_", 7)) {
		if (fs_gate("unlinkat", p, dfd)) {
			errno = hx_fault_errno > 0 ? hx_fault_errno : EIO;
			return -1;
		}
	}
	return (int)syscall(SYS_unlinkat, dfd, p, fl);
}
